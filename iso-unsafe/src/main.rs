//! Sanitizer lane for C19: the fallible merge sort and binary heap of /repo/src/util, compiled
//! unchanged (#[path]) into a crate of their own so that Miri / ASan can run them without the
//! interpreter.  Monitors written here: every element is a heap allocation with a unique id and a
//! live counter (leak / double free / duplication are observable even without a sanitizer), the
//! output must be the stable sorted permutation (or, after a failing comparator, a permutation of
//! the input with the failure passed on), and Miri watches every unsafe access.
//!
//! usage: iso-unsafe <mode> <lo> <hi> <seed> [max_k] [pattern]
//!   mode sort: for n in lo..=hi, 8 run patterns x 2 failure kinds x every failing comparison index
//!   mode heap: push/pop sequences of length lo..=hi with failure at every comparison index
#![allow(dead_code, unused_macros, clippy::all)]

#[macro_use]
mod fe {
    #[macro_export]
    macro_rules! forward_err {
        ($e: expr) => {{
            match $e {
                Ok(__i) => __i,
                Err(__e) => return Ok(Err(__e)),
            }
        }};
    }
}

pub mod xvalue {
    use std::marker::PhantomData;
    #[derive(Debug)]
    pub struct XErr<W, R, T>(pub u32, pub PhantomData<(W, R, T)>);
    #[derive(Debug, PartialEq)]
    pub struct Violation(pub u32);
    pub type XResult<I, W, R, T> = Result<Result<I, XErr<W, R, T>>, Violation>;
}

#[path = "/repo/src/util/trysort.rs"]
mod trysort;
#[path = "/repo/src/util/try_heap.rs"]
mod try_heap;

use std::cell::Cell;
use std::marker::PhantomData;
use std::rc::Rc;
use xvalue::{Violation, XErr, XResult};

thread_local! {
    static LIVE: Cell<i64> = Cell::new(0);
    static DROPS: Cell<u64> = Cell::new(0);
}

/// a tracked element: boxed payload (so that a double drop / use after free is a real memory error) + identity
struct El {
    key: i64,
    id: usize,
    payload: Box<[u8; 24]>,
    shared: Rc<()>,
}
impl El {
    fn new(key: i64, id: usize, shared: &Rc<()>) -> Self {
        LIVE.with(|l| l.set(l.get() + 1));
        El { key, id, payload: Box::new([id as u8; 24]), shared: shared.clone() }
    }
}
impl Drop for El {
    fn drop(&mut self) {
        assert!(self.payload.iter().all(|b| *b == self.id as u8), "payload of element {} corrupted", self.id);
        LIVE.with(|l| l.set(l.get() - 1));
        DROPS.with(|d| d.set(d.get() + 1));
    }
}

struct Lcg(u64);
impl Lcg {
    fn next(&mut self) -> u64 {
        self.0 = self.0.wrapping_mul(6364136223846793005).wrapping_add(1442695040888963407);
        self.0 >> 33
    }
}

fn pattern(p: usize, n: usize, rng: &mut Lcg) -> Vec<i64> {
    (0..n)
        .map(|i| match p {
            0 => i as i64,                                   // ascending
            1 => (n - i) as i64,                             // strictly descending
            2 => (i % 7) as i64,                             // saw-tooth
            3 => (rng.next() % 3) as i64,                    // few distinct keys
            4 => (rng.next() % 1000) as i64,                 // random
            5 => if i % 12 < 6 { i as i64 } else { -(i as i64) }, // runs up and down
            6 => ((n - i) / 3) as i64,                       // weakly descending: ties inside a descending stretch
            _ => if (i / 5) % 2 == 0 { (i / 2) as i64 } else { (n as i64) - (i / 2) as i64 }, // weakly ascending / descending stretches with ties
        })
        .collect()
}

#[derive(Default)]
struct Tally {
    sorts: u64,
    failing_sorts: u64,
    comparisons: u64,
    max_n: usize,
    heap_ops: u64,
    failing_heap_ops: u64,
}

fn fail(msg: String) -> ! {
    println!("MONITOR-VIOLATION {msg}");
    std::process::exit(1);
}

/// run try_sort on a fresh vector; fail_at = Some((k, kind)): the k-th comparison (0-based) fails
fn one_sort(keys: &[i64], fail_at: Option<(u64, u8)>, t: &mut Tally) -> u64 {
    let shared = Rc::new(());
    let live0 = LIVE.with(|l| l.get());
    let mut v: Vec<El> = keys.iter().enumerate().map(|(i, k)| El::new(*k, i, &shared)).collect();
    let mut count = 0u64;
    let r: Result<Result<(), u32>, u32> = trysort::try_sort(&mut v, |a: &El, b: &El| {
        let c = count;
        count += 1;
        if let Some((k, kind)) = fail_at {
            if c == k {
                return if kind == 0 { Ok(Err(7)) } else { Err(9) };
            }
        }
        Ok(Ok(a.key < b.key))
    });
    t.sorts += 1;
    t.comparisons += count;
    t.max_n = t.max_n.max(keys.len());
    // whatever happened, the vector holds every element exactly once
    let mut ids: Vec<usize> = v.iter().map(|e| e.id).collect();
    ids.sort_unstable();
    if ids != (0..keys.len()).collect::<Vec<_>>() {
        fail(format!("sort n={} fail_at={:?}: elements lost or duplicated: {:?}", keys.len(), fail_at, ids));
    }
    if Rc::strong_count(&shared) != keys.len() + 1 {
        fail(format!("sort n={} fail_at={:?}: strong count {} != {}", keys.len(), fail_at, Rc::strong_count(&shared), keys.len() + 1));
    }
    match (fail_at, &r) {
        (Some((k, kind)), _) if k < count => {
            t.failing_sorts += 1;
            let want: Result<Result<(), u32>, u32> = if kind == 0 { Ok(Err(7)) } else { Err(9) };
            if r != want {
                fail(format!("sort n={} fail_at={:?}: outcome {:?} is not the comparator's failure", keys.len(), fail_at, r));
            }
        }
        (_, Ok(Ok(()))) => {
            // the stable sorted permutation
            let mut want: Vec<(i64, usize)> = keys.iter().cloned().zip(0..).collect();
            want.sort_by_key(|(k, _)| *k);
            let got: Vec<(i64, usize)> = v.iter().map(|e| (e.key, e.id)).collect();
            if got != want {
                fail(format!("sort n={}: not the stable sorted permutation: {:?}", keys.len(), got));
            }
        }
        (_, other) => fail(format!("sort n={} fail_at={:?}: unexpected outcome {:?}", keys.len(), fail_at, other)),
    }
    drop(v);
    if LIVE.with(|l| l.get()) != live0 {
        fail(format!("sort n={} fail_at={:?}: live elements {} != {}", keys.len(), fail_at, LIVE.with(|l| l.get()), live0));
    }
    count
}

fn sort_block(lo: usize, hi: usize, seed: u64, max_k: u64, only_pattern: Option<usize>, t: &mut Tally) {
    let mut rng = Lcg(seed.wrapping_mul(2654435761).wrapping_add(17));
    for n in lo..=hi {
        for p in 0..8 {
            if only_pattern.map_or(false, |q| q != p) {
                continue;
            }
            let keys = pattern(p, n, &mut rng);
            let total = one_sort(&keys, None, t);
            // every failing comparison index (sampled evenly above max_k)
            let step = if total > max_k { (total / max_k).max(1) } else { 1 };
            let mut k = 0;
            while k < total {
                for kind in 0..2u8 {
                    one_sort(&keys, Some((k, kind)), t);
                }
                k += step;
            }
            if total > 0 {
                for kind in 0..2u8 {
                    one_sort(&keys, Some((total - 1, kind)), t);
                }
            }
        }
    }
}

struct W0;
struct R0;
struct T0;

fn one_heap(ops: &[(bool, i64)], fail_at: Option<(u64, u8)>, t: &mut Tally) -> u64 {
    let shared = Rc::new(());
    let live0 = LIVE.with(|l| l.get());
    let count = Cell::new(0u64);
    let mut next_id = 0usize;
    let mut failed = false;
    {
        let mut heap = try_heap::TryHeap::with_capacity(4, |a: &El, b: &El| -> XResult<bool, W0, R0, T0> {
            let c = count.get();
            count.set(c + 1);
            if let Some((k, kind)) = fail_at {
                if c == k {
                    return if kind == 0 { Ok(Err(XErr(7, PhantomData))) } else { Err(Violation(9)) };
                }
            }
            Ok(Ok(a.key <= b.key))
        });
        let mut model: Vec<i64> = vec![];
        for (push, key) in ops {
            t.heap_ops += 1;
            if *push {
                let r = heap.push(El::new(*key, next_id, &shared));
                next_id += 1;
                match r {
                    Ok(Ok(())) => model.push(*key),
                    _ => {
                        failed = true;
                        break;
                    }
                }
            } else {
                match heap.pop() {
                    Ok(Ok(Some(e))) => {
                        // the heap's order is whatever is_le induces; the popped key must be an extreme of the model
                        let mx = model.iter().cloned().max();
                        let mn = model.iter().cloned().min();
                        if Some(e.key) != mx && Some(e.key) != mn {
                            fail(format!("heap: popped {} which is neither min nor max of {:?}", e.key, model));
                        }
                        let pos = model.iter().position(|k| *k == e.key).unwrap();
                        model.swap_remove(pos);
                    }
                    Ok(Ok(None)) => {
                        if !model.is_empty() {
                            fail("heap: pop returned None on a non-empty heap".to_string());
                        }
                    }
                    _ => {
                        failed = true;
                        break;
                    }
                }
            }
            if !failed && heap.len() != model.len() {
                fail(format!("heap: len {} != model {}", heap.len(), model.len()));
            }
        }
        if failed {
            t.failing_heap_ops += 1;
        }
        // dropping the heap drops what it still holds
    }
    if Rc::strong_count(&shared) != 1 {
        fail(format!("heap fail_at={:?}: strong count {} after drop", fail_at, Rc::strong_count(&shared)));
    }
    if LIVE.with(|l| l.get()) != live0 {
        fail(format!("heap fail_at={:?}: live elements {} != {}", fail_at, LIVE.with(|l| l.get()), live0));
    }
    count.get()
}

fn heap_block(lo: usize, hi: usize, seed: u64, t: &mut Tally) {
    let mut rng = Lcg(seed.wrapping_mul(40503).wrapping_add(3));
    for n in lo..=hi {
        for variant in 0..4 {
            let ops: Vec<(bool, i64)> = (0..n)
                .map(|i| {
                    let push = match variant {
                        0 => i < n / 2 + 1,
                        1 => rng.next() % 3 != 0,
                        2 => i % 2 == 0,
                        _ => rng.next() % 2 == 0,
                    };
                    (push, (rng.next() % 9) as i64)
                })
                .collect();
            let total = one_heap(&ops, None, t);
            for k in 0..total {
                for kind in 0..2u8 {
                    one_heap(&ops, Some((k, kind)), t);
                }
            }
        }
    }
}

fn main() {
    let a: Vec<String> = std::env::args().collect();
    let mode = a.get(1).map(|s| s.as_str()).unwrap_or("sort");
    let lo: usize = a.get(2).and_then(|s| s.parse().ok()).unwrap_or(0);
    let hi: usize = a.get(3).and_then(|s| s.parse().ok()).unwrap_or(12);
    let seed: u64 = a.get(4).and_then(|s| s.parse().ok()).unwrap_or(0);
    let max_k: u64 = a.get(5).and_then(|s| s.parse().ok()).unwrap_or(u64::MAX);
    let mut t = Tally::default();
    match mode {
        "sort" => sort_block(lo, hi, seed, max_k, a.get(6).and_then(|s| s.parse().ok()), &mut t),
        "heap" => heap_block(lo, hi, seed, &mut t),
        "canary" => {
            // the leak monitor must notice an element that is never dropped
            let shared = Rc::new(());
            let live0 = LIVE.with(|l| l.get());
            let mut v: Vec<El> = (0..3).map(|i| El::new(i, i as usize, &shared)).collect();
            std::mem::forget(v.pop());
            drop(v);
            if LIVE.with(|l| l.get()) - live0 != 1 || Rc::strong_count(&shared) != 2 {
                fail("canary: leak not noticed".into());
            }
            println!("CANARY-OK leaked={} strong={}", LIVE.with(|l| l.get()) - live0, Rc::strong_count(&shared));
            return;
        }
        _ => {}
    }
    println!(
        "ISO-OK mode={mode} lo={lo} hi={hi} seed={seed} sorts={} failing_sorts={} comparisons={} max_n={} heap_ops={} failing_heap_runs={} drops={}",
        t.sorts, t.failing_sorts, t.comparisons, t.max_n, t.heap_ops, t.failing_heap_ops, DROPS.with(|d| d.get())
    );
}
