"""Standard-library surface table (read from the tree under test through the H2 hook) and a
type-directed term generator over it."""
import re

from . import core


class T:
    """parsed type: kind in prim | native | tuple | callable | generic | unknown | named"""

    def __init__(self, kind, name=None, args=(), ret=None):
        self.kind, self.name, self.args, self.ret = kind, name, tuple(args), ret

    def __repr__(self):
        if self.kind in ("prim", "generic", "named") and not self.args:
            return self.name
        if self.kind == "unknown":
            return "?"
        if self.kind == "tuple":
            return "(" + ", ".join(map(repr, self.args)) + ")"
        if self.kind == "callable":
            return "(" + ", ".join(map(repr, self.args)) + ")->(" + repr(self.ret) + ")"
        return f"{self.name}<" + ", ".join(map(repr, self.args)) + ">"

    def mentions(self, name):
        if self.name == name:
            return True
        return any(a.mentions(name) for a in self.args) or (self.ret is not None and self.ret.mentions(name))

    def subst(self, env):
        if self.kind == "generic":
            return env.get(self.name, self)
        return T(self.kind, self.name, [a.subst(env) for a in self.args], self.ret.subst(env) if self.ret else None)

    def generics(self, acc=None):
        acc = acc if acc is not None else set()
        if self.kind == "generic":
            acc.add(self.name)
        for a in self.args:
            a.generics(acc)
        if self.ret is not None:
            self.ret.generics(acc)
        return acc


PRIMS = {"int", "float", "bool", "str"}
NATIVES = {"Sequence", "Generator", "Optional", "Stack", "Set", "Mapping"}


class _P:
    def __init__(self, s, generics):
        self.s, self.i, self.generics = s, 0, generics

    def ws(self):
        while self.i < len(self.s) and self.s[self.i] == " ":
            self.i += 1

    def peek(self, tok):
        self.ws()
        return self.s.startswith(tok, self.i)

    def eat(self, tok):
        self.ws()
        if not self.s.startswith(tok, self.i):
            raise ValueError(f"expected {tok!r} at {self.i} in {self.s!r}")
        self.i += len(tok)

    def name(self):
        self.ws()
        m = re.match(r"[A-Za-z_][A-Za-z_0-9]*", self.s[self.i:])
        if not m:
            raise ValueError(f"name expected at {self.i} in {self.s!r}")
        self.i += m.end()
        return m.group(0)

    def type(self):
        self.ws()
        if self.peek("("):
            self.eat("(")
            items, opts = [], []
            if not self.peek(")"):
                while True:
                    items.append(self.type())
                    opt = False
                    # a '?' after a parameter marks it optional (function signatures only)
                    if self.peek("?") and not (self.i > 0 and self.s[self.i - 1] in "(,"):
                        self.eat("?")
                        opt = True
                    opts.append(opt)
                    if self.peek(","):
                        self.eat(",")
                        continue
                    break
            self.eat(")")
            if self.peek("->"):
                self.eat("->")
                if self.peek("("):
                    # callable: ->(ret); but a function signature may return a tuple: treat '(' X ')' as X if single
                    save = self.i
                    self.eat("(")
                    r = self.type()
                    if self.peek(")"):
                        self.eat(")")
                        if self.peek("->"):
                            # it was a callable return type  (A)->(B) itself
                            self.i = save
                            r = self.type()
                    else:
                        self.i = save
                        r = self.type()
                    t = T("callable", args=items, ret=r)
                else:
                    t = T("callable", args=items, ret=self.type())
                t.optional = opts
                return t
            return T("tuple", args=items)
        if self.peek("?"):
            self.eat("?")
            return T("unknown")
        n = self.name()
        args = []
        if self.peek("<"):
            self.eat("<")
            while True:
                args.append(self.type())
                if self.peek(","):
                    self.eat(",")
                    continue
                break
            self.eat(">")
        if n in PRIMS:
            return T("prim", n)
        if n in self.generics:
            return T("generic", n)
        if n in NATIVES:
            return T("native", n, args)
        return T("named", n, args)


class Overload:
    def __init__(self, name, sig):
        sig = sig.replace("<>", "")     # natives without parameters are rendered "Regex<>"
        self.name, self.sig = name, sig
        generics = []
        s = sig
        if s.startswith("<"):
            end = s.index(">")
            generics = [g.strip() for g in s[1:end].split(",")]
            s = s[end + 1:]
        self.generics = generics
        p = _P(s, set(generics))
        # top level: (params)->ret   where params may carry '?'
        p.eat("(")
        self.params, self.optional = [], []
        if not p.peek(")"):
            while True:
                self.params.append(p.type())
                p.ws()
                opt = False
                if p.i < len(p.s) and p.s[p.i] == "?":
                    p.i += 1
                    opt = True
                self.optional.append(opt)
                if p.peek(","):
                    p.eat(",")
                    continue
                break
        p.eat(")")
        p.eat("->")
        self.ret = p.type()
        self.min_args = sum(1 for o in self.optional if not o)

    def __repr__(self):
        return f"{self.name}{self.sig}"


def load(ctx):
    """the surface of the tree under test: list of Overload, dynamic function names, type names"""
    obs = core.run_cases(ctx.binary, [{"id": "sig", "mode": "signatures"}], ctx.prop + "_sig", confirm=False)[0]
    sig = obs.get("signatures")
    if not sig:
        raise core.Broken(f"no signature table: {obs}")
    overloads, bad = [], []
    for f in sig["functions"]:
        for s in f["static"]:
            try:
                overloads.append(Overload(f["name"], s))
            except ValueError as e:
                bad.append((f["name"], s, str(e)))
    overloads.sort(key=lambda o: (o.name, str(o.sig)))      # the table comes out of hash maps: make the workload a function of the seed only
    dynamic = {f["name"]: f["dynamic"] for f in sorted(sig["functions"], key=lambda f: f["name"]) if f["dynamic"]}
    return overloads, dynamic, dict((n, t) for n, t in sig["types"]), bad


# ---------------------------------------------------------------------------------------------
# inhabitants

class Pools:
    """literal pools per flavour"""

    def __init__(self, ints, floats, strs, bools=(True, False)):
        self.ints, self.floats, self.strs, self.bools = ints, floats, strs, bools


def flit(x):
    import math
    if x != x or x in (float("inf"), float("-inf")):
        raise ValueError("no literal")
    r = repr(float(x))
    if "e" in r:
        m, e = r.split("e")
        if "." not in m:
            m += ".0"
        r = f"{m}e{int(e)}"
    return r if not r.startswith("-") else f"({r})"


def ilit(n):
    if -(1 << 126) < n < (1 << 126):
        return str(n) if n >= 0 else f"({n})"
    return f'"{n}".to_int()'


def slit(s):
    out = '"'
    for ch in s:
        if ch == '"' or ch == "\\":
            out += "\\" + ch
        elif ch == "\n":
            out += "\\n"
        elif ord(ch) < 32 or ord(ch) > 126:
            out += "\\u{%x}" % ord(ch)
        else:
            out += ch
    return out + '"'


class Inhabiter:
    def __init__(self, overloads, rng, pools):
        self.rng, self.pools = rng, pools
        self.by_ret = {}
        for o in overloads:
            if o.name.startswith("__"):
                continue
            self.by_ret.setdefault(repr(o.ret), []).append(o)

    def lam(self, t, depth):
        """a lambda of callable type t"""
        names = [f"p{i}" for i in range(len(t.args))]
        params = ", ".join(f"{n}: {a!r}" for n, a in zip(names, t.args))
        # body: prefer one built from a parameter of the right type
        same = [n for n, a in zip(names, t.args) if repr(a) == repr(t.ret)]
        if same and self.rng.random() < 0.6:
            body = self.rng.choice(same)
            if repr(t.ret) == "int" and self.rng.random() < 0.5:
                body = f"{body} * 2 + 1"
            if repr(t.ret) == "float" and self.rng.random() < 0.5:
                body = f"{body} * 0.5"
        elif repr(t.ret) == "bool" and names and repr(t.args[0]) in ("int", "float"):
            body = f"{names[0]} > " + ("1" if repr(t.args[0]) == "int" else "0.5")
            if len(names) > 1 and repr(t.args[1]) == repr(t.args[0]):
                body = f"{names[0]} == {names[1]}" if self.rng.random() < 0.5 else f"{names[0]} < {names[1]}"
        elif repr(t.ret) == "int" and len(names) == 2 and repr(t.args[0]) == repr(t.args[1]) and repr(t.args[0]) in ("int", "float", "str"):
            body = f"cmp({names[0]}, {names[1]})"
        elif repr(t.ret) == "int" and len(names) == 1 and repr(t.args[0]) in ("int", "float", "str", "bool"):
            body = f"hash({names[0]})"
        else:
            body = self.gen(t.ret, depth - 1)
            if body is None:
                return None
        return f"({params})->{{{body}}}"

    def gen(self, t, depth=3):
        rng, P = self.rng, self.pools
        k = t.kind
        if k == "prim":
            if t.name == "int":
                return ilit(rng.choice(P.ints))
            if t.name == "float":
                return flit(rng.choice(P.floats))
            if t.name == "bool":
                return "true" if rng.choice(P.bools) else "false"
            return slit(rng.choice(P.strs))
        if k == "unknown":
            return rng.choice(['error("u")', "[]", "none()"])
        if k == "generic":
            return self.gen(T("prim", rng.choice(["int", "float", "str"])), depth)
        if k == "tuple":
            parts = [self.gen(a, depth - 1) for a in t.args]
            if any(p is None for p in parts):
                return None
            return "(" + ", ".join(parts) + ("," if len(parts) == 1 else "") + ")"
        if k == "callable":
            return self.lam(t, depth)
        if k == "native":
            a = t.args
            if t.name in ("Sequence", "Generator", "Stack", "Set"):
                n = rng.choice([0, 1, 2, 3, 4]) if depth > 0 else 0
                if depth <= 0 and rng.random() < 0.5:
                    n = 1
                parts = [self.gen(a[0], depth - 1) for _ in range(n)]
                if any(p is None for p in parts):
                    return None
                if not parts:
                    one = self.gen(a[0], 0)
                    if one is None:
                        return None
                    base = f"[{one}].skip(1)"
                else:
                    base = "[" + ", ".join(parts) + "]"
                if t.name == "Sequence":
                    if repr(a[0]) == "int" and rng.random() < 0.2:
                        return rng.choice(["range(5)", "range(1, 10, 3)", "count().take(4)", "range(3).map((x: int)->{x * x})"])
                    return base
                if t.name == "Generator":
                    return base + ".to_generator()"
                if t.name == "Stack":
                    return base + ".to_stack()"
                if repr(a[0]) in ("int", "float", "str", "bool") or a[0].kind == "tuple":
                    return f"set<{a[0]!r}>().update({base})"
                return None
            if t.name == "Optional":
                if rng.random() < 0.3:
                    x = self.gen(a[0], 0)
                    return None if x is None else f"some({x}).and(none())" if False else (f"[{x}].first((q: {a[0]!r})->{{false}})")
                x = self.gen(a[0], depth - 1)
                return None if x is None else f"some({x})"
            if t.name == "Mapping":
                if repr(a[0]) not in ("int", "str", "float", "bool"):
                    return None
                m = f"mapping<{a[0]!r}>()"
                if rng.random() < 0.15:
                    # an empty mapping of the right type (one entry set and taken away again)
                    kx, vx = self.gen(a[0], 0), self.gen(a[1], depth - 1)
                    if kx is not None and vx is not None:
                        return m + f".set({kx}, {vx}).discard({kx})"
                n = rng.choice([1, 2, 3])
                for _ in range(n):
                    kx, vx = self.gen(a[0], 0), self.gen(a[1], depth - 1)
                    if kx is None or vx is None:
                        return None
                    m += f".set({kx}, {vx})"
                if rng.random() < 0.15:
                    kx = self.gen(a[0], 0)
                    m += f".discard({kx})"
                return m
        if k == "named" and t.name == "Matrix" and t.args:
            xs = [self.gen(t.args[0], 0) for _ in range(4)]
            if any(x is None for x in xs):
                return None
            return f"matrix(2, 2, [{', '.join(xs)}])"
        if k == "named":
            cands = [o for o in self.by_ret.get(repr(t), []) if not o.generics and all(p.kind != "named" or repr(p) != repr(t) for p in o.params)]
            rng.shuffle(cands)
            for o in cands[:4]:
                if depth <= 0 and len(o.params) > 2:
                    continue
                call = self.call(o, depth - 1)
                if call is not None:
                    return call
            return None
        return None

    def call(self, o, depth=3, env=None, nargs=None, arg_override=None):
        """a call of overload o with generated arguments (generic parameters bound to concrete types)"""
        rng = self.rng
        env = dict(env or {})
        for g in o.generics:
            if g not in env:
                env[g] = T("prim", rng.choice(["int", "float", "str", "int"]))
        n = nargs if nargs is not None else rng.randint(o.min_args, len(o.params))
        args = []
        for i in range(n):
            if arg_override and i in arg_override:
                args.append(arg_override[i])
                continue
            a = self.gen(o.params[i].subst(env), depth)
            if a is None:
                return None
            args.append(a)
        return f"{o.name}({', '.join(args)})"
