"""differential value checks: many expressions per program, isolation of failing programs"""
from . import core


# ---- model value wrappers -------------------------------------------------------------------

class Err:
    """the model predicts an error value (message not compared unless given)"""

    def __init__(self, contains=None):
        self.contains = contains

    def __repr__(self):
        return "Err()"


class Opt:
    def __init__(self, v=None, has=True):
        self.v, self.has = v, has

    def __repr__(self):
        return f"Opt({self.v!r})" if self.has else "Opt.none"


NONE = Opt(None, False)


class Gen(list):
    def __repr__(self):
        return "Gen(%s)" % list.__repr__(self)


class Stack(list):
    def __repr__(self):
        return "Stack(%s)" % list.__repr__(self)


class SetV(list):
    def __repr__(self):
        return "SetV(%s)" % list.__repr__(self)


class MapV(list):
    """list of (k, v)"""

    def __repr__(self):
        return "MapV(%s)" % list.__repr__(self)


class Uni:
    def __init__(self, idx, v):
        self.idx, self.v = idx, v

    def __repr__(self):
        return f"Uni({self.idx}, {self.v!r})"


class AnyOf:
    def __init__(self, *alts):
        self.alts = alts

    def __repr__(self):
        return "AnyOf(%s)" % ", ".join(map(repr, self.alts))


class Skip:
    """no value expectation (the case still runs under the panic / shape monitors)"""

    def __repr__(self):
        return "Skip()"


class Approx:
    def __init__(self, x, rel=1e-12, abs_=0.0):
        self.x, self.rel, self.abs = x, rel, abs_

    def __repr__(self):
        return f"Approx({self.x!r})"


class Trunc:
    """a sequence/generator whose first elements are known but that is longer than the dump budget"""

    def __init__(self, kind, prefix):
        self.kind, self.prefix = kind, prefix


def to_dump(v):
    """python model value -> stripped dump"""
    if isinstance(v, bool):
        return ("b", v)
    if isinstance(v, int):
        return ("i", v)
    if isinstance(v, float):
        return ("f", core.fbits(v))
    if isinstance(v, str):
        return ("s", v)
    if isinstance(v, tuple):
        return ("t", tuple(to_dump(x) for x in v))
    if isinstance(v, Gen):
        return ("g", tuple(to_dump(x) for x in v), False)
    if isinstance(v, Stack):
        return ("k", tuple(to_dump(x) for x in v), False)
    if isinstance(v, SetV):
        return ("e", tuple(sorted((to_dump(x) for x in v), key=repr)), False)
    if isinstance(v, MapV):
        return ("m", tuple(sorted(((to_dump(a), to_dump(b)) for a, b in v), key=repr)), False)
    if isinstance(v, list):
        return ("q", tuple(to_dump(x) for x in v), False)
    if isinstance(v, Opt):
        return ("o", to_dump(v.v) if v.has else None)
    if isinstance(v, Uni):
        return ("u", v.idx, to_dump(v.v))
    if isinstance(v, Trunc):
        return (v.kind, tuple(to_dump(x) for x in v.prefix), True)
    raise TypeError(f"no dump for {v!r}")


def matches(expect, out):
    """out: outcome dict {'kind':..., 'dump': stripped}"""
    if isinstance(expect, Skip):
        return out["kind"] in ("value", "error")
    if isinstance(expect, AnyOf):
        return any(matches(a, out) for a in expect.alts)
    if isinstance(expect, Err):
        if out["kind"] != "error":
            return False
        return expect.contains is None or expect.contains in out["dump"][1]
    if out["kind"] != "value":
        return False
    if isinstance(expect, Approx):
        d = out["dump"]
        if d[0] != "f":
            return False
        x = core.bits_to_float(d[1])
        return abs(x - expect.x) <= max(expect.abs, expect.rel * abs(expect.x))
    if isinstance(expect, Trunc):
        d = out["dump"]
        want = to_dump(expect)
        return d[0] == want[0] and d[1][:len(want[1])] == want[1] and len(d[1]) >= len(want[1])
    return out["dump"] == to_dump(expect)


# ---- execution ------------------------------------------------------------------------------

def binding_outcome(b):
    if b is None:
        return {"kind": "missing"}
    if b.get("force_panic"):
        return {"kind": "panic", "panic": b["force_panic"], "where": "force"}
    d = b.get("dump")
    if d is None:
        return {"kind": "missing"}
    out = {"kind": "error" if d[0] == "err" else "value", "dump": core.strip_dump(d), "raw": d,
           "type": b.get("type")}
    if b.get("shape"):
        out["shape"] = b["shape"]
    # an error or violation nested inside a forced container
    nested = []
    core.walk_dump(d, lambda n: nested.append(n[0]) if n[0] in ("viol",) else None)
    if nested:
        out["nested"] = nested
    return out


def program_failure(obs):
    """None if every binding of the program was evaluated, else the failing outcome"""
    for k in ("timeout", "died", "harness_error"):
        if obs.get(k):
            o = {"kind": k if k != "harness_error" else "inconclusive", "detail": {x: obs.get(x) for x in ("rc", "stderr", "confirmed", "harness_error")}}
            if k in ("timeout", "died") and not obs.get("confirmed"):
                o["kind"] = "inconclusive"
            return o
    c = obs.get("compile", {})
    if c.get("panic"):
        return {"kind": "panic", "panic": c["panic"], "where": "compile"}
    if not c.get("ok"):
        return {"kind": "rejected", "class": c.get("class"), "err": c.get("err")}
    i = obs.get("instantiate", {})
    if i.get("outcome") == "panic":
        return {"kind": "panic", "panic": i["panic"], "where": "instantiate"}
    if i.get("outcome") == "violation":
        return {"kind": "violation", "violation": i["violation"]}
    return None


def run_items(ctx, items, prelude="", per_program=40, case_extra=None, name=None, dump=None,
              timeout_ms=20000):
    """items: list of dicts with 'expr' (+ anything else).  Returns list of outcomes aligned
    with items.  A program that fails as a whole is split into single-expression programs."""
    case_extra = case_extra or {}
    dump = dump or {"per": 64, "nodes": 3000}

    def mk(idx_list, tag):
        src = prelude + "\n" + "\n".join(
            (items[i].get("decls", "") + f"\nlet r{k} = {items[i]['expr']};") for k, i in enumerate(idx_list))
        c = {"id": f"{ctx.prop}-{tag}", "source": src, "exports": [f"r{k}" for k in range(len(idx_list))],
             "dump": dump, "meta": {"items": idx_list}}
        c.update(case_extra)
        return c

    groups = [list(range(i, min(i + per_program, len(items)))) for i in range(0, len(items), per_program)]
    cases = [mk(g, f"b{n}") for n, g in enumerate(groups)]
    obs = ctx.run(cases, name=name, case_timeout_ms=timeout_ms)
    outcomes = [None] * len(items)
    cases_of = [None] * len(items)
    redo = []
    for g, c, o in zip(groups, cases, obs):
        fail = program_failure(o)
        if fail is None:
            for k, i in enumerate(g):
                outcomes[i] = binding_outcome(o.get("bindings", {}).get(f"r{k}"))
                cases_of[i] = c
        elif len(g) == 1:
            outcomes[g[0]] = fail
            cases_of[g[0]] = c
        else:
            redo.extend(g)
    if redo:
        solo_cases = [mk([i], f"s{i}") for i in redo]
        solo_obs = ctx.run(solo_cases, name=(name or ctx.prop) + "_solo", case_timeout_ms=timeout_ms)
        for i, c, o in zip(redo, solo_cases, solo_obs):
            fail = program_failure(o)
            outcomes[i] = fail if fail is not None else binding_outcome(o.get("bindings", {}).get("r0"))
            cases_of[i] = c
    return outcomes, cases_of


def solo_case(ctx, item, prelude="", case_extra=None, dump=None):
    c = {"id": f"{ctx.prop}-solo", "source": prelude + "\n" + item.get("decls", "") + f"\nlet r0 = {item['expr']};",
         "exports": ["r0"], "dump": dump or {"per": 64, "nodes": 3000}}
    c.update(case_extra or {})
    return c


def run_histories(ctx, histories, prelude="", dump=None, case_extra=None, name=None, timeout_ms=20000):
    """histories: list of lists of steps {'name': n, 'src': expr}; one program per history
    (`let n = expr;` per step, every name exported).  When a program fails as a whole, all of its
    prefixes are run so that the failure is attributed to the first step that causes it; the steps
    before it keep their outcomes, the steps after it are 'unreached'."""
    dump = dump or {"per": 64, "nodes": 4000}
    case_extra = case_extra or {}

    def mk(h, upto, tag):
        src = prelude + "\n" + "\n".join(f"let {s['name']} = {s['src']};" for s in h[:upto])
        c = {"id": f"{ctx.prop}-{tag}", "source": src, "exports": [s["name"] for s in h[:upto]], "dump": dump}
        c.update(case_extra)
        return c

    cases = [mk(h, len(h), f"h{n}") for n, h in enumerate(histories)]
    obs = ctx.run(cases, name=name, case_timeout_ms=timeout_ms)
    results = [None] * len(histories)
    used_cases = list(cases)
    redo = []
    for n, (h, o) in enumerate(zip(histories, obs)):
        fail = program_failure(o)
        if fail is None:
            results[n] = [binding_outcome(o.get("bindings", {}).get(s["name"])) for s in h]
        else:
            redo.append((n, fail))
    if redo:
        pref_cases, index = [], []
        for n, _ in redo:
            for k in range(1, len(histories[n]) + 1):
                pref_cases.append(mk(histories[n], k, f"h{n}p{k}"))
                index.append((n, k))
        pobs = ctx.run(pref_cases, name=(name or ctx.prop) + "_prefix", case_timeout_ms=timeout_ms)
        by = {}
        for (n, k), c, o in zip(index, pref_cases, pobs):
            by.setdefault(n, []).append((k, c, o))
        for n, whole_fail in redo:
            h = histories[n]
            outs = [{"kind": "unreached"} for _ in h]
            last_ok = None
            culprit = None
            for k, c, o in by[n]:
                f = program_failure(o)
                if f is None:
                    last_ok = o
                else:
                    culprit = (k - 1, f, c)
                    break
            if last_ok is not None:
                for i, s in enumerate(h):
                    b = last_ok.get("bindings", {}).get(s["name"])
                    if b is not None:
                        outs[i] = binding_outcome(b)
            if culprit is not None:
                outs[culprit[0]] = culprit[1]
                used_cases[n] = culprit[2]
            else:
                # every prefix passed but the whole failed once: not reproducible
                outs[-1] = {"kind": "inconclusive", "detail": whole_fail}
            results[n] = outs
    return results, used_cases
