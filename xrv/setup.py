"""./check --setup : build the worker from /repo's working tree and make sure every check module loads"""
import importlib
import os

from . import core


def main():
    try:
        b, s = core.build()
        print(f"built {b} in {s:.1f}s")
    except core.Broken as e:
        print("setup failed:", e)
        return 1
    bad = []
    props = os.path.join(os.path.dirname(os.path.abspath(__file__)), "props")
    for f in sorted(os.listdir(props)):
        if f.startswith("c") and f.endswith(".py"):
            try:
                importlib.import_module(f"xrv.props.{f[:-3]}")
            except Exception as e:      # a check that cannot even be imported must be seen here, not at its first run
                bad.append(f"{f}: {type(e).__name__}: {e}")
    if bad:
        print("setup failed: check modules do not load:\n  " + "\n  ".join(bad))
        return 1
    print("all check modules load")
    return 0
