import sys
from . import core


def main():
    try:
        b, s = core.build()
        print(f"built {b} in {s:.1f}s")
        return 0
    except core.Broken as e:
        print("setup failed:", e)
        return 1
