"""typed random generator for the core fragment (see corelang)"""
from .corelang import (BOOL, INT, STR, STRUCTS, UNIONS, Bin, Call, Concat, Construct, Display, Error, FnDecl, FnDef, If, IfError,
                       Index, IsError, Item, Lambda, Len, LetDecl, Lit, MapArr, Member, NoneOf, OptOp, Program, SeqLit, Some, Tup,
                       Un, Var, Variant, VariantGet)

BASE = [INT, INT, INT, BOOL, STR]


class Scope:
    def __init__(self, parent=None):
        self.vars = []          # (name, type)
        self.parent = parent

    def all_vars(self):
        s, out, seen = self, [], set()
        while s is not None:
            for n, t in reversed(s.vars):
                if n not in seen:
                    seen.add(n)
                    out.append((n, t))
            s = s.parent
        return out

    def of_type(self, t):
        return [n for n, tt in self.all_vars() if tt == t]

    def fns(self):
        return [(n, t) for n, t in self.all_vars() if isinstance(t, tuple) and t[0] == "fn"]


class Gen:
    def __init__(self, rng, effects=True, errors=True, max_depth=5):
        self.rng, self.effects, self.errors, self.max_depth = rng, effects, errors, max_depth
        self.counter = 0
        self.fn_defs = {}       # name -> FnDef (for default arity)

    def fresh(self, p):
        self.counter += 1
        return f"{p}{self.counter}"

    def rand_type(self, depth=2):
        r = self.rng.random()
        if depth <= 0 or r < 0.55:
            return self.rng.choice(BASE)
        if r < 0.65:
            return ("tup", tuple(self.rand_type(depth - 1) for _ in range(self.rng.randint(1, 3))))
        if r < 0.78:
            return ("seq", self.rng.choice([INT, INT, STR, BOOL]))
        if r < 0.88:
            return ("opt", self.rng.choice([INT, STR, BOOL]))
        if r < 0.94:
            return ("struct", self.rng.choice(["P", "Q"]))
        return ("union", "U")

    # ---- expressions ---------------------------------------------------------------------
    def expr(self, t, sc, d):
        rng = self.rng
        if d <= 0:
            return self.leaf(t, sc)
        r = rng.random()
        # generic forms available at every type
        if r < 0.10:
            vs = sc.of_type(t)
            if vs:
                return Var(rng.choice(vs), t)
        if r < 0.18:
            return If(self.expr(BOOL, sc, d - 1), self.expr(t, sc, d - 1), self.expr(t, sc, d - 1))
        if r < 0.24:
            c = self.call_of_type(t, sc, d)
            if c is not None:
                return c
        if r < 0.28 and self.effects and t in (INT, BOOL, STR):
            return Display(self.expr(t, sc, d - 1))
        if r < 0.31 and self.errors:
            return IfError(self.maybe_error(t, sc, d - 1), self.expr(t, sc, d - 1))
        if r < 0.34:
            tt = ("tup", tuple([t] + [rng.choice(BASE) for _ in range(rng.randint(0, 2))]))
            k = rng.randrange(len(tt[1]))
            items = [self.expr(x, sc, d - 1) for x in tt[1]]
            items[0], items[k] = items[k], items[0]
            tt = ("tup", tuple(i.ty for i in items))
            return Item(Tup(items), k)
        if r < 0.37:
            return Index(SeqLit([self.expr(t, sc, d - 1) for _ in range(rng.randint(1, 3))], t), Lit(rng.choice([0, -1, 0])))
        if r < 0.40:
            return OptOp("or", self.expr(("opt", t), sc, d - 1), self.expr(t, sc, d - 1)) if t in (INT, STR, BOOL) else self.leaf(t, sc)
        if r < 0.43 and t in (INT, STR, BOOL):
            return self.lambda_call(t, sc, d)
        return self.typed(t, sc, d)

    def maybe_error(self, t, sc, d):
        if self.rng.random() < 0.5:
            return Error(self.rng.choice(["E1", "E2", "boom"]), t)
        if t == INT and self.rng.random() < 0.5:
            return Bin("%", self.expr(INT, sc, d), Lit(0), INT)
        return self.expr(t, sc, d)

    def leaf(self, t, sc):
        rng = self.rng
        vs = sc.of_type(t)
        if vs and rng.random() < 0.5:
            return Var(rng.choice(vs), t)
        if t == INT:
            return Lit(rng.choice([0, 1, 2, 3, 5, 7, 10, -1, -4, 12, 100]))
        if t == BOOL:
            return Lit(rng.random() < 0.5)
        if t == STR:
            return Lit(rng.choice(["", "a", "b", "xy", "é", "p q"]))
        k = t[0]
        if k == "tup":
            return Tup([self.leaf(x, sc) for x in t[1]])
        if k == "seq":
            n = rng.choice([1, 2, 3])
            return SeqLit([self.leaf(t[1], sc) for _ in range(n)], t[1])
        if k == "opt":
            return Some(self.leaf(t[1], sc)) if rng.random() < 0.6 else self.typed_none(t)
        if k == "struct":
            return Construct(t[1], [self.leaf(ft, sc) for _, ft in STRUCTS[t[1]]])
        if k == "union":
            f, ft = rng.choice(UNIONS[t[1]])
            return Variant(t[1], f, self.leaf(ft, sc))
        if k == "fn":
            return self.lam(t, sc, 1)
        raise ValueError(t)

    def typed_none(self, t):
        # none() alone has type Optional<?>; in a context that fixes the type this is fine
        return NoneOf(t[1])

    def typed(self, t, sc, d):
        rng = self.rng
        if t == INT:
            r = rng.random()
            if r < 0.5:
                op = rng.choice(["+", "-", "*", "+", "-", "%", "|", "&", "^"])
                b = self.expr(INT, sc, d - 1)
                if op == "%" and (rng.random() < 0.8 or not self.errors):
                    b = Lit(rng.choice([2, 3, 5, 7, -3]))
                return Bin(op, self.expr(INT, sc, d - 1), b, INT)
            if r < 0.58:
                return Un("-", self.expr(INT, sc, d - 1), INT)
            if r < 0.66:
                return Len(self.expr(("seq", rng.choice([INT, STR])), sc, d - 1))
            if r < 0.74:
                return Member(self.expr(("struct", "P"), sc, d - 1), "a")
            if r < 0.80:
                return Member(self.expr(("struct", "Q"), sc, d - 1), "n")
            if r < 0.86:
                return VariantGet(self.expr(("union", "U"), sc, d - 1), "i", False) if self.errors else self.leaf(t, sc)
            if r < 0.92:
                return Index(self.expr(("seq", INT), sc, d - 1), self.expr(INT, sc, 0) if self.errors else Lit(0))
            return self.leaf(t, sc)
        if t == BOOL:
            r = rng.random()
            if r < 0.35:
                return Bin(rng.choice(["<", ">", "<=", ">=", "==", "!="]), self.expr(INT, sc, d - 1), self.expr(INT, sc, d - 1), BOOL)
            if r < 0.6:
                return Bin(rng.choice(["&&", "||"]), self.expr(BOOL, sc, d - 1), self.expr(BOOL, sc, d - 1), BOOL)
            if r < 0.7:
                return Un("!", self.expr(BOOL, sc, d - 1), BOOL)
            if r < 0.78:
                return Bin(rng.choice(["==", "!="]), self.expr(STR, sc, d - 1), self.expr(STR, sc, d - 1), BOOL)
            if r < 0.84:
                return OptOp("has_value", self.expr(("opt", rng.choice([INT, STR])), sc, d - 1))
            if r < 0.9 and self.errors:
                return IsError(self.maybe_error(rng.choice([INT, STR]), sc, d - 1))
            return self.leaf(t, sc)
        if t == STR:
            r = rng.random()
            if r < 0.4:
                return Bin("+", self.expr(STR, sc, d - 1), self.expr(STR, sc, d - 1), STR)
            if r < 0.55:
                return Member(self.expr(("struct", "P"), sc, d - 1), "b")
            if r < 0.65:
                return VariantGet(self.expr(("union", "U"), sc, d - 1), "s", False) if self.errors else self.leaf(t, sc)
            return self.leaf(t, sc)
        k = t[0]
        if k == "tup":
            return Tup([self.expr(x, sc, d - 1) for x in t[1]])
        if k == "seq":
            r = rng.random()
            if r < 0.4:
                return SeqLit([self.expr(t[1], sc, d - 1) for _ in range(rng.randint(1, 3))], t[1])
            if r < 0.6:
                return Concat(self.expr(t, sc, d - 1), self.expr(t, sc, d - 1))
            if r < 0.8 and t[1] in (INT, STR, BOOL):
                src_t = rng.choice([INT, STR])
                f = self.lam(("fn", (src_t,), t[1]), sc, d - 1, pure=True)
                return MapArr(self.expr(("seq", src_t), sc, d - 1), f, t[1])
            return self.leaf(t, sc)
        if k == "opt":
            r = rng.random()
            if r < 0.5:
                return Some(self.expr(t[1], sc, d - 1))
            if r < 0.65 and t[1] in (INT, STR):
                return VariantGet(self.expr(("union", "U"), sc, d - 1), "i" if t[1] == INT else "s", True)
            return self.leaf(t, sc)
        if k == "struct":
            return Construct(t[1], [self.expr(ft, sc, d - 1) for _, ft in STRUCTS[t[1]]])
        if k == "union":
            f, ft = rng.choice(UNIONS[t[1]])
            return Variant(t[1], f, self.expr(ft, sc, d - 1))
        if k == "fn":
            return self.lam(t, sc, d)
        raise ValueError(t)

    def lam(self, t, sc, d, pure=False):
        inner = Scope(sc)
        params = []
        for pt in t[1]:
            n = self.fresh("p")
            params.append((n, pt))
            inner.vars.append((n, pt))
        eff, err = self.effects, self.errors
        if pure:
            self.effects, self.errors = False, False
        body = self.expr(t[2], inner, max(0, d - 1))
        self.effects, self.errors = eff, err
        return Lambda(FnDef(None, params, t[2], [], body))

    def lambda_call(self, t, sc, d):
        at = self.rng.choice([INT, STR, BOOL])
        f = self.lam(("fn", (at,), t), sc, d - 1)
        return Call(f, [self.expr(at, sc, d - 1)], t)

    def call_of_type(self, t, sc, d):
        cands = [(n, ft) for n, ft in sc.fns() if ft[2] == t]
        if not cands:
            return None
        n, ft = self.rng.choice(cands)
        fd = self.fn_defs.get(n)
        nargs = len(ft[1])
        if fd is not None and fd.defaults and self.rng.random() < 0.5:
            nargs -= self.rng.randint(1, len(fd.defaults))
        args = [self.expr(pt, sc, d - 1) for pt in ft[1][:nargs]]
        return Call(Var(n, ft), args, t)

    # ---- declarations --------------------------------------------------------------------
    def function(self, sc, d, level=0):
        rng = self.rng
        name = self.fresh("f")
        nparams = rng.randint(0, 3)
        params = [(self.fresh("a"), self.rand_type(1)) for _ in range(nparams)]
        ret = self.rand_type(1)
        ndef = rng.choice([0, 0, 1, 2]) if nparams else 0
        ndef = min(ndef, nparams)
        eff, err = self.effects, self.errors
        # defaults are evaluated once at creation; keep them error-free (an error default is not an argument)
        self.errors = False
        defaults = [self.expr(t, sc, 1) for _, t in params[nparams - ndef:]]
        self.errors = err
        inner = Scope(sc)
        for p in params:
            inner.vars.append(p)
        decls = []
        for _ in range(rng.choice([0, 0, 1, 2])):
            if level < 2 and rng.random() < 0.3:
                fd = self.function(inner, d - 1, level + 1)
                decls.append(FnDecl(fd))
                inner.vars.append((fd.name, fd.ty))
            else:
                lt = self.rand_type(1)
                ln = self.fresh("v")
                decls.append(LetDecl(ln, self.expr(lt, inner, d - 1)))
                inner.vars.append((ln, lt))
        body = self.expr(ret, inner, d)
        fd = FnDef(name, params, ret, decls, body, defaults)
        self.fn_defs[name] = fd
        return fd

    def program(self, n_decls):
        rng = self.rng
        sc = Scope()
        decls = []
        for _ in range(n_decls):
            if rng.random() < 0.3:
                fd = self.function(sc, rng.randint(1, self.max_depth - 1))
                decls.append(FnDecl(fd))
                sc.vars.append((fd.name, fd.ty))
            else:
                t = self.rand_type(2)
                n = self.fresh("x")
                decls.append(LetDecl(n, self.expr(t, sc, rng.randint(1, self.max_depth)), annotate=rng.random() < 0.2))
                sc.vars.append((n, t))
        return Program(decls)
