"""per-run context handed to the property modules"""
import json
import random

from . import core


class Ctx:
    def __init__(self, prop, tier, seed):
        self.prop, self.tier, self.seed = prop, tier, seed
        self.rng = random.Random(core.seed_for(prop, seed))
        self.verdicts = core.Verdicts(prop, tier, seed)
        self.binary, self.build_s = core.build()
        self._release = None
        self.quick = tier == "quick"

    def pick(self, quick, thorough):
        return quick if self.quick else thorough

    def release_binary(self):
        if self._release is None:
            self._release, _ = core.build("release")
        return self._release

    def run(self, cases, name=None, **kw):
        for i, c in enumerate(cases):
            c.setdefault("id", f"{self.prop}-{i}")
        return core.run_cases(self.binary, cases, name or self.prop, **kw)

    def canary(self):
        """the panic monitor must see a panic thrown in worker code; a silent canary breaks the run"""
        obs = core.run_cases(self.binary, [{"id": "canary", "mode": "canary_panic"}], self.prop + "_canary",
                             confirm=False)[0]
        ok = obs.get("canary", {}).get("panicked") and "index out of bounds" in obs["canary"]["panic"].get("msg", "")
        if not ok:
            raise core.Broken(f"panic canary silent: {obs}")
        return True

    def replay(self, mod, path):
        rec = json.load(open(path))
        self.verdicts.keep_old = True
        case = rec["case"]
        if hasattr(mod, "replay"):
            return mod.replay(self, rec)
        obs = self.run([case], name=self.prop + "_replay")[0]
        n_before = len(self.verdicts.new) + len(self.verdicts.known_hits)
        mod.decide(self, case, obs)
        print(json.dumps({"observation": obs}, default=repr)[:6000])
        rc = self.verdicts.finish()
        if len(self.verdicts.new) + len(self.verdicts.known_hits) == n_before:
            print("replay: no violation reproduced")
        return rc
