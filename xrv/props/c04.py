"""C04 Static checking accepts exactly the assignable programs.
Oracle: an independent implementation of the documented assignability relation and of the least
common type, three-valued (MUST-ACCEPT / MUST-REJECT / UNSPECIFIED).  The observed event is
feed_file's Ok/Err and the error class; for inference the static type the compiler reports for a
top-level binding (hook H2).  Two ways to supply a type: as a *parameter of a host function* (exact
declared type, callables are callable-typed values, no inhabitant needed) and as a *term* (literals:
brings in the bottom type and function-typed lambdas).  Accepted term-mode programs are also run
under the shape walker (a wrongly accepted pair ends in a tag mismatch)."""
import itertools
import re

from .. import batch, core

LEVEL = "exploration"

PRELUDE = "struct S0(a: int)\nstruct G1<A>(a: A)\nstruct G2<A, B>(a: A, b: B)\nunion U1<A>(a: A, b: str)\n"
BASE = [("int",), ("str",), ("bool",), ("S0",)]
UNK = ("unk",)
TYPE_ERRORS = {"VariableTypeMismatch", "FunctionOutputTypeMismatch", "NoOverload", "StructFieldTypeMismatch", "VariantConstructorTypeArgMismatch", "IncompatibleTypes",
               "InvalidArgumentType", "CallableBindingFailed", "StructParamsLengthMismatch", "NotAFunction"}


def src(t):
    """source syntax of a type"""
    k = t[0]
    if k in ("int", "str", "bool", "float", "S0", "T"):
        return k
    if k == "seq":
        return f"Sequence<{src(t[1])}>"
    if k == "opt":
        return f"Optional<{src(t[1])}>"
    if k == "map":
        return f"Mapping<int, {src(t[1])}>"
    if k == "tup":
        return "(" + ", ".join(src(x) for x in t[1]) + ")"
    if k == "fn":
        return "(" + ", ".join(src(x) for x in t[1]) + ")->(" + src(t[2]) + ")"
    if k == "G1":
        return f"G1<{src(t[1])}>"
    if k == "G2":
        return f"G2<{src(t[1])}, {src(t[2])}>"
    if k == "U1":
        return f"U1<{src(t[1])}>"
    raise ValueError(t)


def shown(t):
    """the text the compiler uses when it describes a type"""
    k = t[0]
    if k == "unk":
        return "?"
    if k == "fn":
        return "(" + ", ".join(shown(x) for x in t[1]) + ")->" + shown(t[2])
    if k == "seq":
        return f"Sequence<{shown(t[1])}>"
    if k == "opt":
        return f"Optional<{shown(t[1])}>"
    if k == "map":
        return f"Mapping<int, {shown(t[1])}>"
    if k == "tup":
        return "(" + ", ".join(shown(x) for x in t[1]) + ")"
    if k == "G1":
        return f"G1<{shown(t[1])}>"
    if k == "G2":
        return f"G2<{shown(t[1])}, {shown(t[2])}>"
    if k == "U1":
        return f"U1<{shown(t[1])}>"
    return k


def children(t):
    k = t[0]
    if k == "tup":
        return list(t[1])
    if k == "fn":
        return list(t[1]) + [t[2]]
    return [x for x in t[1:]]


def has_unk(t):
    return t == UNK or any(has_unk(x) for x in children(t))


def has_fn(t):
    return t[0] == "fn" or any(has_fn(x) for x in children(t))


def depth1_types():
    out = list(BASE)
    for b in BASE:
        out += [("seq", b), ("opt", b), ("map", b), ("tup", (b,)), ("fn", (), b), ("G1", b), ("U1", b)]
    for a, b in itertools.product(BASE, BASE):
        out += [("tup", (a, b)), ("fn", (a,), b), ("G2", a, b)]
    return out


def rand_type(rng, d, allow_unk=False, allow_fn=True):
    r = rng.random()
    if d <= 0 or r < 0.25:
        if allow_unk and rng.random() < 0.25:
            return UNK
        return rng.choice(BASE + [("float",)])
    rec = lambda: rand_type(rng, d - 1, allow_unk, allow_fn)   # noqa: E731
    k = rng.choice(["seq", "opt", "map", "tup1", "tup2", "tup3", "fn0", "fn1", "fn2", "G1", "G2", "U1"])
    if k in ("fn0", "fn1", "fn2") and not allow_fn:
        k = "seq"
    if k == "tup1":
        return ("tup", (rec(),))
    if k == "tup2":
        return ("tup", (rec(), rec()))
    if k == "tup3":
        return ("tup", (rec(), rec(), rec()))
    if k == "fn0":
        return ("fn", (), rec())
    if k == "fn1":
        return ("fn", (rec(),), rec())
    if k == "fn2":
        return ("fn", (rec(), rec()), rec())
    if k == "G2":
        return ("G2", rec(), rec())
    return (k, rec())


def mutate(rng, t, d=2):
    """a type near t: one component changed, arity changed, container swapped"""
    r = rng.random()
    if r < 0.25 or t[0] in ("int", "str", "bool", "float", "S0", "unk"):
        return rand_type(rng, d)
    k = t[0]
    if k == "fn" and r < 0.5:
        ps = list(t[1])
        if ps and rng.random() < 0.5:
            ps.pop(rng.randrange(len(ps)))
        else:
            ps.insert(rng.randrange(len(ps) + 1), rng.choice(BASE))
        return ("fn", tuple(ps), t[2])
    if k == "tup" and r < 0.5:
        ps = list(t[1])
        if len(ps) > 1 and rng.random() < 0.5:
            ps.pop(rng.randrange(len(ps)))
        else:
            ps.insert(rng.randrange(len(ps) + 1), rng.choice(BASE))
        return ("tup", tuple(ps))
    if k in ("seq", "opt", "G1", "U1") and r < 0.4:
        return (rng.choice(["seq", "opt", "G1", "U1"]), t[1])
    # change one component
    if k == "fn":
        if t[1] and rng.random() < 0.6:
            i = rng.randrange(len(t[1]))
            ps = list(t[1])
            ps[i] = mutate(rng, ps[i], d - 1)
            return ("fn", tuple(ps), t[2])
        return ("fn", t[1], mutate(rng, t[2], d - 1))
    if k == "tup":
        i = rng.randrange(len(t[1]))
        ps = list(t[1])
        ps[i] = mutate(rng, ps[i], d - 1)
        return ("tup", tuple(ps))
    if k == "G2":
        return ("G2", mutate(rng, t[1], d - 1), t[2]) if rng.random() < 0.5 else ("G2", t[1], mutate(rng, t[2], d - 1))
    return (k, mutate(rng, t[1], d - 1))


# ---- the oracle -----------------------------------------------------------------------------------
ACC, REJ, UNS = "MUST-ACCEPT", "MUST-REJECT", "UNSPECIFIED"


def asg(R, S):
    """may a value of static type S be supplied where R is required?"""
    if S == UNK:
        return ACC
    if R == UNK:
        return UNS
    if R[0] != S[0]:
        return REJ
    k = R[0]
    if k in ("int", "str", "bool", "float", "S0", "T"):
        return ACC
    if k == "fn":
        if len(R[1]) != len(S[1]):
            return REJ
        if R == S:
            return ACC
        parts = [both(a, b) for a, b in zip(R[1], S[1])] + [both(R[2], S[2])]
        if REJ in parts:
            return REJ
        return UNS          # same shape up to bottoms inside a callable: variance is not documented
    if k == "tup":
        if len(R[1]) != len(S[1]):
            return REJ
        parts = [asg(a, b) for a, b in zip(R[1], S[1])]
    else:
        parts = [asg(a, b) for a, b in zip(R[1:], S[1:])]
    if REJ in parts:
        return REJ
    if UNS in parts:
        return UNS
    return ACC


def both(a, b):
    x, y = asg(a, b), asg(b, a)
    if x == REJ and y == REJ:
        return REJ
    if x == ACC and y == ACC:
        return ACC
    return UNS


def lub(A, B):
    """least common type or None; 'UNS' when a callable with bottoms is involved"""
    if A == UNK:
        return B
    if B == UNK:
        return A
    if A[0] != B[0]:
        return None
    k = A[0]
    if k in ("int", "str", "bool", "float", "S0", "T"):
        return A
    if k == "fn":
        if len(A[1]) != len(B[1]):
            return None
        if A == B:
            return A
        parts = [lub(a, b) for a, b in zip(A[1], B[1])] + [lub(A[2], B[2])]
        if None in parts:
            return None
        return "UNS"
    if k == "tup":
        if len(A[1]) != len(B[1]):
            return None
        parts = [lub(a, b) for a, b in zip(A[1], B[1])]
        if None in parts:
            return None
        if "UNS" in parts:
            return "UNS"
        return ("tup", tuple(parts))
    parts = [lub(a, b) for a, b in zip(A[1:], B[1:])]
    if None in parts:
        return None
    if "UNS" in parts:
        return "UNS"
    return (k,) + tuple(parts)


# ---- terms ------------------------------------------------------------------------------------------
def term(rng, t, counter):
    """a closed expression whose static type is t (None if there is none in this generator)"""
    k = t[0]
    if k == "int":
        return str(rng.choice([0, 1, 7]))
    if k == "str":
        return rng.choice(["'a'", "\"bc\""])
    if k == "bool":
        return rng.choice(["true", "false"])
    if k == "float":
        return rng.choice(["1.5", "0.0"])
    if k == "S0":
        return "S0(1)"
    if k == "unk":
        return "error('e')"
    if k == "seq":
        if t[1] == UNK:
            return "[]"
        x = term(rng, t[1], counter)
        return None if x is None else f"[{x}]"
    if k == "opt":
        if t[1] == UNK:
            return "none()"
        x = term(rng, t[1], counter)
        return None if x is None else f"some({x})"
    if k == "map":
        if t[1] == UNK:
            return "mapping<int>()"
        x = term(rng, t[1], counter)
        return None if x is None else f"mapping<int>().set(1, {x})"
    if k == "tup":
        xs = [term(rng, x, counter) for x in t[1]]
        if None in xs:
            return None
        return "(" + ", ".join(xs) + ("," if len(xs) == 1 else "") + ")"
    if k == "fn":
        if any(has_unk(p) for p in t[1]):
            return None          # a parameter of the bottom type cannot be written
        body = term(rng, t[2], counter)
        if body is None:
            return None
        ps = ", ".join(f"q{counter[0] + i}: {src(p)}" for i, p in enumerate(t[1]))
        counter[0] += len(t[1])
        return f"({ps})->{{{body}}}"
    if k in ("G1", "U1", "G2"):
        if any(has_unk(x) for x in t[1:]):
            return None          # a generic compound built from a bottom argument keeps a dangling parameter (known finding): not used as a supplier
        xs = [term(rng, x, counter) for x in t[1:]]
        if None in xs:
            return None
        if k == "G1":
            return f"G1({xs[0]})"
        if k == "G2":
            return f"G2({xs[0]}, {xs[1]})"
        return f"U1::a({xs[0]})"
    return None


# ---- positions ----------------------------------------------------------------------------------------
def param_positions(R, S):
    r, s = src(R), src(S)
    return {
        "let": f"fn host(s_: {s})->int{{ let v_: {r} = s_; 0 }}",
        "argument": f"fn tgt(p_: {r})->int{{0}}\nfn host(s_: {s})->int{{ tgt(s_) }}",
        "lambda_variable_call": f"fn host(s_: {s})->int{{ let lam_ = (p_: {r})->{{0}}; lam_(s_) }}",
        "callable_parameter_call": f"fn host(s_: {s}, g_: ({r})->(int))->int{{ g_(s_) }}",
        "struct_field": f"struct W_(f: {r})\nfn host(s_: {s})->int{{ let w_ = W_(s_); 0 }}",
        "variant_payload": f"union V_(a: {r}, b: int)\nfn host(s_: {s})->int{{ let w_ = V_::a(s_); 0 }}",
        "return": f"fn host(s_: {s})->{r}{{ s_ }}",
        "method_argument": f"fn tgt(k_: int, p_: {r})->int{{0}}\nfn host(s_: {s})->int{{ 1.tgt(s_) }}",
    }


def term_positions(R, t):
    r = src(R)
    return {
        "let": f"let v_: {r} = {t};",
        "argument": f"fn tgt(p_: {r})->int{{0}}\nlet v_ = tgt({t});",
        "lambda_variable_call": f"let lam_ = (p_: {r})->{{0}};\nlet v_ = lam_({t});",
        "callable_parameter_call": f"fn ap_(g_: ({r})->(int))->int{{ g_({t}) }}",
        "struct_field": f"struct W_(f: {r})\nlet v_ = W_({t});",
        "variant_payload": f"union V_(a: {r}, b: int)\nlet v_ = V_::a({t});",
        "return": f"fn f_()->{r}{{ {t} }}",
        "default_value": f"fn f_(p_: {r} ?= {t})->int{{0}}",
    }


QUICK_POSITIONS = ["let", "argument", "return"]


def make_cases(ctx):
    rng = ctx.rng
    cases = []
    D1 = depth1_types()
    # ---- exhaustive block: every ordered pair of depth-1 types, supplied as a host parameter
    positions = QUICK_POSITIONS if ctx.tier == "quick" else None
    for R, S in itertools.product(D1, D1):
        want = ACC if R == S else REJ
        pp = param_positions(R, S)
        if positions is not None:
            # the quick tier: let / argument / return for every pair that is assignable or shares its head constructor, plus one of the
            # other positions in rotation; pairs that differ already in the head constructor get one position in rotation
            h = hash((src(R), src(S))) & 0xffff
            if want == ACC or R[0] == S[0]:
                rest = sorted(set(pp) - set(positions))
                names = positions + [rest[h % len(rest)]]
            else:
                names = [sorted(pp)[h % len(pp)]]
        else:
            names = sorted(pp)
        for n in names:
            cases.append({"id": f"C04-x-{n}-{len(cases)}", "source": PRELUDE + pp[n], "compile_only": True,
                          "meta": {"mode": "param", "block": "exhaustive_depth1", "pos": n, "R": src(R), "S": src(S), "want": want}})
    # ---- sampled deeper pairs (param mode): equal, mutated, random
    for _ in range(ctx.pick(2500, 60000)):
        R = rand_type(rng, rng.choice([2, 2, 3]))
        S = R if rng.random() < 0.35 else (mutate(rng, R) if rng.random() < 0.8 else rand_type(rng, 2))
        want = ACC if R == S else REJ
        pp = param_positions(R, S)
        n = rng.choice(sorted(pp))
        cases.append({"id": f"C04-s-{n}-{len(cases)}", "source": PRELUDE + pp[n], "compile_only": True,
                      "meta": {"mode": "param", "block": "sampled", "pos": n, "R": src(R), "S": src(S), "want": want}})
    # ---- generic variables: T is rigid inside the function that declares it
    for R, S, want in [(("T",), ("T",), ACC), (("int",), ("T",), REJ), (("T",), ("int",), REJ), (("seq", ("T",)), ("seq", ("T",)), ACC), (("seq", ("int",)), ("seq", ("T",)), REJ),
                       (("opt", ("T",)), ("T",), REJ), (("tup", (("T",), ("int",))), ("tup", (("T",), ("int",))), ACC), (("tup", (("T",), ("int",))), ("tup", (("int",), ("T",))), REJ),
                       (("fn", (("T",),), ("T",)), ("fn", (("T",),), ("T",)), ACC), (("fn", (("T",),), ("int",)), ("fn", (("T",),), ("T",)), REJ), (("G1", ("T",)), ("G1", ("T",)), ACC),
                       (("G1", ("T",)), ("G1", ("int",)), REJ), (("G2", ("T",), ("int",)), ("G2", ("T",), ("int",)), ACC), (("map", ("T",)), ("map", ("T",)), ACC)]:
        for n, body in param_positions(R, S).items():
            if n in ("struct_field", "variant_payload"):
                continue            # compound declarations cannot mention the function's type parameter
            body = body.replace("fn host(", "fn host<T>(").replace("fn tgt(", "fn tgt<T>(") if "tgt" in body and "T" in src(R) else body.replace("fn host(", "fn host<T>(")
            cases.append({"id": f"C04-g-{n}-{len(cases)}", "source": PRELUDE + body, "compile_only": True,
                          "meta": {"mode": "param", "block": "rigid_generic", "pos": n, "R": src(R), "S": src(S), "want": want if "tgt<T>" not in body else UNS}})
    # ---- term mode: bottoms and function-typed lambdas
    for _ in range(ctx.pick(3000, 60000)):
        S = rand_type(rng, rng.choice([1, 2, 2]), allow_unk=True)
        c = [0]
        t = term(rng, S, c)
        if t is None:
            continue
        r = rng.random()
        if r < 0.45:
            R = fill_unk(rng, S)
        elif r < 0.8:
            R = mutate(rng, fill_unk(rng, S))
        else:
            R = rand_type(rng, 2)
        if has_unk(R):
            continue
        want = asg(R, S)
        tp = term_positions(R, t)
        n = rng.choice(sorted(tp))
        cases.append({"id": f"C04-t-{n}-{len(cases)}", "source": PRELUDE + tp[n], "dump": {"per": 8, "nodes": 100},
                      "meta": {"mode": "term", "block": "terms", "pos": n, "R": src(R), "S": shown(S), "want": want}})
    # ---- least common type: acceptance of mixed literals / generic calls and the inferred type
    for _ in range(ctx.pick(2000, 40000)):
        A = rand_type(rng, rng.choice([0, 1, 2]), allow_unk=True, allow_fn=rng.random() < 0.3)
        r = rng.random()
        if r < 0.4:
            B = fill_unk(rng, A) if rng.random() < 0.5 else A
        elif r < 0.8:
            B = blank(rng, mutate(rng, fill_unk(rng, A)))
        else:
            B = rand_type(rng, 1, allow_unk=True)
        c = [0]
        ta, tb = term(rng, A, c), term(rng, B, c)
        if ta is None or tb is None:
            continue
        L = lub(A, B)
        form = rng.choice(["array", "if", "generic_call", "generic_compound", "optional_or"])
        if form == "array":
            body, ty = f"let v_ = [{ta}, {tb}];", (None if L in (None, "UNS") else ("seq", L))
        elif form == "if":
            body, ty = f"let v_ = if(true, {ta}, {tb});", L
        elif form == "generic_call":
            body, ty = f"fn pick_<T>(a: T, b: T)->T{{a}}\nlet v_ = pick_({ta}, {tb});", L
        elif form == "generic_compound":
            body, ty = f"let v_ = [G1({ta}), G1({tb})];", (None if L in (None, "UNS") else ("seq", ("G1", L)))
            if A == UNK or B == UNK or has_unk(A) or has_unk(B):
                L = "UNS"       # a compound built from a bottom keeps a dangling parameter (known finding K-C04-01 is probed separately)
        else:
            body, ty = f"let v_ = [some({ta}), some({tb}), none()];", (None if L in (None, "UNS") else ("seq", ("opt", L)))
        want = UNS if L == "UNS" else (REJ if L is None else ACC)
        cases.append({"id": f"C04-l-{form}-{len(cases)}", "source": PRELUDE + body, "dump": {"per": 8, "nodes": 100}, "exports": ["v_"],
                      "meta": {"mode": "term", "block": "least_common_type", "pos": form, "R": shown(A), "S": shown(B), "want": want,
                               "type": shown(ty) if (want == ACC and ty not in (None, "UNS") and not has_dangling(ty)) else None}})
    # ---- compounds are nominal *per declaration*: a compound of the same name declared in another scope is a different type
    for outer, inner, use, want in [
        ("struct P_(x: int)", "struct P_(x: str)", "fn first_(p: P_)->str{ p::x }  first_(mk_()).len()", REJ),
        ("struct P_(x: int)", "struct P_(x: int)", "fn first_(p: P_)->int{ p::x }  first_(mk_())", UNS),     # the same declaration twice: structurally equal, harmless either way
        ("struct P_(x: int)", "struct P_(x: int, y: int)", "fn first_(p: P_)->int{ p::y }  first_(mk_())", REJ),
        ("struct P_(x: int)", "union P_(x: int, y: str)", "fn first_(p: P_)->int{ p!:x }  first_(mk_())", REJ),
        ("struct P_<A>(x: A)", "struct P_<A>(x: Sequence<A>)", "fn first_(p: P_<int>)->int{ p::x.len() }  first_(mk_())", REJ),
        ("struct P_(x: int)", "struct Q_(x: int)", "fn first_(p: P_)->int{ p::x }  first_(mk_())", ACC),
        ("struct P_(x: int)", "struct P_(x: str)", "let v_: P_ = mk_(); 0", REJ),
        ("struct P_(x: int)", "struct P_(x: str)", "[P_('a'), mk_()].len()", REJ),
    ]:
        mk = "fn mk_()->P_<int>{ P_(7) }" if "<A>" in outer else "fn mk_()->P_{ P_(7) }"
        cases.append({"id": f"C04-n-{len(cases)}", "source": f"{outer}\n{mk}\nfn host_()->int{{ {inner}  {use} }}\nlet v_ = host_();", "dump": {"per": 8, "nodes": 100},
                      "meta": {"mode": "term", "block": "nominal_per_declaration", "pos": "inner_scope_compound", "R": inner, "S": outer, "want": want}})
    # ---- the dangling generic parameter (probe for the known finding)
    for body, ty in [("let v_ = [G1(1), G1(error('e'))];", "Sequence<G1<int>>"), ("let v_ = G1(error('e'));", "G1<?>"), ("let v_ = [].to_array();", "Sequence<?>"),
                     ("let v_: Sequence<int> = [].to_array();", "Sequence<int>"), ("fn id_<T>(a: T)->T{a}\nlet v_ = [id_([]), [1]];", "Sequence<Sequence<int>>")]:
        cases.append({"id": f"C04-d-{len(cases)}", "source": PRELUDE + body, "dump": {"per": 8, "nodes": 100}, "exports": ["v_"],
                      "meta": {"mode": "term", "block": "bottom_through_generic", "pos": "generic_result", "R": ty, "S": body, "want": ACC, "type": ty}})
    return cases


def has_dangling(t):
    return False


def norm(text):
    """type texts are compared modulo parentheses and blanks (callable-typed and function-typed values print their result type differently)"""
    return re.sub(r"[() ]", "", text)


def fill_unk(rng, t):
    """replace every bottom in t by a concrete type (a type the bottom can be coerced to)"""
    if t == UNK:
        return rng.choice(BASE)
    k = t[0]
    if k == "tup":
        return ("tup", tuple(fill_unk(rng, x) for x in t[1]))
    if k == "fn":
        return ("fn", tuple(fill_unk(rng, x) for x in t[1]), fill_unk(rng, t[2]))
    if len(t) == 1:
        return t
    return (k,) + tuple(fill_unk(rng, x) for x in t[1:])


def blank(rng, t):
    """replace some components by the bottom type (only where a term exists for it)"""
    if rng.random() < 0.15:
        return UNK
    k = t[0]
    if k in ("seq", "opt", "map"):
        return (k, blank(rng, t[1]))
    if k == "tup":
        return ("tup", tuple(blank(rng, x) for x in t[1]))
    return t


def decide(ctx, c, o):
    m = c["meta"]
    fail = batch.program_failure(o)
    if fail is not None and fail["kind"] == "inconclusive":
        ctx.verdicts.inconclusive_case(str(fail)[:200], c)
        return None
    comp = o.get("compile") or {}
    if comp.get("panic"):
        ctx.verdicts.violation(f"{m['block']}|{m['pos']}|compile_panic:" + core.panic_sig(comp["panic"]), c, {"expected": m["want"], "observed": comp["panic"]})
        return False
    accepted = bool(comp.get("ok"))
    cls = comp.get("class")
    want = m["want"]
    # a type parameter of a *library or compound* signature that shows up in a message or an inferred type although the program has no generics of its own
    dangling = "|dangling_generic_parameter" if (m["block"] != "rigid_generic" and re.search(r"[<(, ]([A-Z][0-9]?)[>), ]", " " + str(comp.get("err") or "") + " " + " ".join(str(b.get("type")) for b in (o.get("bindings") or {}).values()) + " ")
                                                 and not re.search(r"\b[TAB]\b", m["R"] + " " + m["S"].split("let v_")[0])) else ""
    shape_kind = "|".join(sorted({m["R"].split("<")[0].split("(")[0] or "tuple/fn", m["S"].split("<")[0].split("(")[0] or "tuple/fn"}))
    if want == ACC and not accepted:
        ctx.verdicts.violation(f"{m['block']}|{m['pos']}|rejected_although_assignable:{cls}|{shape_kind}{dangling}", c, {"required": m["R"], "supplied": m["S"], "expected": "accepted", "observed": comp.get("err")})
        return False
    if want == REJ and accepted:
        ctx.verdicts.violation(f"{m['block']}|{m['pos']}|accepted_although_not_assignable|{shape_kind}", c, {"required": m["R"], "supplied": m["S"], "expected": "a type error", "observed": "accepted"})
        return False
    if not accepted and cls not in TYPE_ERRORS:
        ctx.verdicts.violation(f"{m['block']}|{m['pos']}|rejected_with_a_class_that_is_not_a_type_error:{cls}", c, {"required": m["R"], "supplied": m["S"], "expected": sorted(TYPE_ERRORS), "observed": comp.get("err")})
        return False
    if accepted and not c.get("compile_only"):
        # executed too: panics and shape mismatches of the bindings
        for where, p in core.find_panics(o):
            ctx.verdicts.violation(f"{m['block']}|{m['pos']}|accepted_program_panics:" + core.panic_sig(p), c, {"required": m["R"], "supplied": m["S"], "expected": "runs", "observed": p})
            return False
        for name, b in (o.get("bindings") or {}).items():
            if b.get("shape"):
                ctx.verdicts.violation(f"{m['block']}|{m['pos']}|value_does_not_have_its_static_type", c, {"required": m["R"], "supplied": m["S"], "expected": b.get("type"), "observed": b["shape"]})
                return False
        if m.get("type"):
            got = ((o.get("bindings") or {}).get("v_") or {}).get("type")
            if got is not None and norm(got) != norm(m["type"]):
                ctx.verdicts.violation(f"{m['block']}|{m['pos']}|inferred_type_is_not_the_least_common_type{dangling}", c, {"parts": [m["R"], m["S"]], "expected": m["type"], "observed": got})
                return False
    if want == UNS:
        return None
    return True


def run(ctx):
    ctx.canary()
    cases = make_cases(ctx)
    obs = ctx.run(cases, name="C04")
    counts = {ACC: 0, REJ: 0, UNS: 0}
    agree = 0
    by_block, classes, positions = {}, {}, {}
    types_checked = 0
    for c, o in zip(cases, obs):
        m = c["meta"]
        counts[m["want"]] += 1
        by_block[m["block"]] = by_block.get(m["block"], 0) + 1
        positions[m["pos"]] = positions.get(m["pos"], 0) + 1
        cls = (o.get("compile") or {}).get("class")
        if cls:
            classes[cls] = classes.get(cls, 0) + 1
        if m.get("type"):
            types_checked += 1
        r = decide(ctx, c, o)
        agree += bool(r)
    # oracle canary: the checker must notice a wrongly accepted pair
    probe = core.Verdicts(ctx.prop, ctx.tier, ctx.seed)
    real, ctx.verdicts = ctx.verdicts, probe
    decide(ctx, {"id": "canary", "compile_only": True, "meta": {"mode": "param", "block": "canary", "pos": "let", "R": "int", "S": "str", "want": REJ}}, {"compile": {"ok": True}})
    ctx.verdicts = real
    if not probe.new:
        raise core.Broken("acceptance canary was not noticed")
    n1 = len(depth1_types())
    samples = [{"program": cases[0]["source"], "oracle": cases[0]["meta"]["want"]}, {"program": next(c for c in cases if c["meta"]["block"] == "terms")["source"]},
               {"program": next(c for c in cases if c["meta"]["block"] == "least_common_type")["source"]}]
    cov = {"evaluations": len(cases), "distinct_nontrivial": len({c["source"] for c in cases}),
           "rule": "one evaluation = one (required type, supplied type, position) program given to the compiler (term-mode programs are executed as well); distinct = distinct texts",
           "samples": samples, "agreeing": agree, "oracle_verdicts": counts, "by_block": by_block, "by_position": positions, "error_classes_seen": classes,
           "depth1_types": n1, "depth1_pairs": n1 * n1, "exhaustive_depth1_block": True, "exhaustive_positions": "all 8" if ctx.tier != "quick" else "let/argument/return + one rotating position for pairs of equal head constructor, one rotating position for the others",
           "inferred_types_compared": types_checked}
    return {"coverage": cov, "broken": None if agree > 1000 else "too few decided",
            "assumptions": ["without bottoms and generics the documented relation is type identity (callables: same arity, identical components)",
                            "bottoms inside a callable's parameter or return type: variance is not documented (UNSPECIFIED, only monitored for crashes)",
                            "a required type that is itself the bottom type is UNSPECIFIED", "Mapping keys are int; Set and Generator behave like Sequence in the checker and are sampled through Sequence"]}


def replay(ctx, rec):
    c = rec["case"]
    o = ctx.run([c], name="C04_replay")[0]
    print(c["source"])
    print("oracle:", c["meta"]["want"], "required:", c["meta"]["R"], "supplied:", c["meta"]["S"])
    print("observed:", (o.get("compile") or {}).get("ok"), (o.get("compile") or {}).get("err"), {n: b.get("type") for n, b in (o.get("bindings") or {}).items()})
    r = decide(ctx, c, o)
    if r is False:
        return ctx.verdicts.finish()
    print("replay: not reproduced")
    return 0
