"""C10 Limits bound all work: no unbounded native loop.
Bounded restatement (a hang is the absence of an event, no finite run decides "never"): under
search <= 500, call <= 2000, recursion <= 1000, size <= 4 MiB every evaluation must *return*
(value, error value or violation) within the case budget and 6 GiB of address space.  Monitor:
watchdog + RLIMIT_AS around each case in a worker process; a kill is a violation only when the
solo re-run with 3x the budget is killed again, otherwise it is inconclusive.
Time clause: every user function body starts with display(); the recording writer timestamps each
write, so a body that began after deadline + tolerance is an observed event."""
import re

from .. import batch, core, surface
from ..surface import T, Inhabiter, ilit

LEVEL = "exploration"

LIMS = [
    {"search": 500, "ud_call": 2000, "recursion": 1000, "size": 4 << 20},
    {"search": 50, "ud_call": 300, "recursion": 100, "size": 1 << 20, "depth": 50},
    {"search": 5, "ud_call": 20, "recursion": 10, "size": 200000, "depth": 8},
    {"search": 500, "ud_call": 2000, "recursion": 1000, "size": 4 << 20, "time_ms": 3000},
]

HUGE = [10 ** 9, 10 ** 12, 10 ** 15, (1 << 62), (1 << 63) - 1, 1 << 63, 1 << 64, 10 ** 30, -(10 ** 12), -(1 << 63), 3, 1000, 0, 1, -1, 65536, 10 ** 6]


def lam_ty(t):
    return t


# ---- pipelines ------------------------------------------------------------------------------------
SEQ_SOURCES = ["count()", "count(7)", "count(0, 0)", "count(5, -3)", "range(1000000000000000)", "range(0, 4611686018427387904, 3)", "[1, 2, 3].repeat()", "[7].repeat()",
               "([1, 2, 3] * 1000000000000)", "count().map((x: int)->{x * x})", "range(1000000000000000).map((x: int)->{x + 1})", "(count() + count())",
               "range(9223372036854775807)", "range(-9223372036854775808, 9223372036854775807)", "count().skip(1000000000000)", "count().take(1000000000000)"]
GEN_SOURCES = ["count().to_generator()", "successors(1, (x: int)->{x + 1})", "successors(0, (x: int)->{x})", "successors_until(1, (x: int)->{some(x * 2)})",
               "[1, 2].to_generator().repeat()", "range(1000000000000000).to_generator()", "count(0, 0).to_generator()", "[1].to_generator().repeat(1000000000000)",
               "[0].skip(1).to_generator().repeat()", "(count().to_generator() + count().to_generator())"]

FALSE_PREDS = ["false", "x != x", "x == 5 && x == 6"]


def stages(ty, rng):
    """(text appended, new element type) for a generator whose elements have xray type `ty`"""
    I = "int"
    out = [
        (f".filter((x: {ty})->{{false}})", ty), (f".filter((x: {ty})->{{true}})", ty), (f".skip({rng.choice([3, 10 ** 12, 1 << 63])})", ty),
        (f".skip_until((x: {ty})->{{false}})", ty), (f".take({rng.choice([3, 10 ** 12, 1 << 63])})", ty), (f".take_while((x: {ty})->{{true}})", ty),
        (f".distinct((x: {ty})->{{0}}, (a: {ty}, b: {ty})->{{true}})", ty), (f".distinct((x: {ty})->{{0}}, (a: {ty}, b: {ty})->{{false}})", ty),
        (f".group((a: {ty}, b: {ty})->{{true}})", f"Sequence<{ty}>"), (f".group((a: {ty}, b: {ty})->{{false}})", f"Sequence<{ty}>"),
        (f".windows({rng.choice([2, 10 ** 9, 1 << 62])})", f"Sequence<{ty}>"), (f".chunks({rng.choice([2, 10 ** 9, 1 << 62])})", f"Sequence<{ty}>"),
        (".enumerate()", f"(int, {ty})"), (f".map((x: {ty})->{{[x, x].to_generator()}}).flatten()", ty), (f".map((x: {ty})->{{[x].to_generator().skip(1)}}).flatten()", ty),
        (".repeat()", ty), (f".repeat({rng.choice([2, 10 ** 12])})", ty), (f".with_count((x: {ty})->{{0}}, (a: {ty}, b: {ty})->{{true}})", f"({ty}, int)"),
        (f".map((x: {ty})->{{x}})", ty), (f".aggregate((a: {ty}, b: {ty})->{{b}})", ty), (f".zip(count().to_generator())", f"({ty}, int)"),
    ]
    if ty == I:
        out += [(".map((x: int)->{x * x})", I), (".filter((x: int)->{x % 1000003 == 1})", I), (".aggregate(0, (a: int, b: int)->{a + b})", I),
                (".distinct(hash{int}, eq{int, int})", I), (".group(eq{int, int})", "Sequence<int>"), (".filter((x: int)->{x < 0})", I), (".take_while((x: int)->{x >= 0})", I)]
    return out


def consumers(ty):
    out = [".to_array()", ".len()", ".last()", f".reduce((a: {ty}, b: {ty})->{{b}})", ".get(1000000000000)", ".get(3)", f".nth(1000000000, (x: {ty})->{{true}})",
           f".nth(3, (x: {ty})->{{false}})", f".first((x: {ty})->{{false}})", f".any((x: {ty})->{{false}})", f".all((x: {ty})->{{true}})", f".count((x: {ty})->{{true}})",
           ".to_array().len()", ".to_array().to_str().len()", f".max((a: {ty}, b: {ty})->{{false}})", f".min((a: {ty}, b: {ty})->{{true}})"]
    if ty == "int":
        out += [".sum()", ".product()", ".contains(-1, eq{int, int})", ".count(-1, eq{int, int})", ".to_array().sort().len()", ".map((x: int)->{x.to_str()}).join().len()",
                ".to_array().to_set().len()", ".to_array().sum()", ".max(lt{int, int})", ".to_array().median()", ".to_array().mean()"]
        out += ["XSET", "XMAP"]
    return out


def pipeline(rng):
    if rng.random() < 0.5:
        src, ty = rng.choice(GEN_SOURCES), "int"
    else:
        src, ty = rng.choice(SEQ_SOURCES) + ".to_generator()", "int"
    names = [src.split("(")[0].strip("(")]
    expr = src
    for _ in range(rng.randint(0, 5)):
        st, nty = rng.choice(stages(ty, rng))
        expr += st
        ty = nty
        names.append(st.split("(")[0])
    c = rng.choice(consumers(ty))
    names.append(c.split("(")[0])
    if c == "XSET":
        expr = f"set<int>().update({expr}).len()"
    elif c == "XMAP":
        expr = f"mapping<int>().update_counter({expr}).len()"
    else:
        expr += c
    return expr, "pipe:" + "".join(names)


SEQ_CONSUMERS = [".len()", ".to_array().len()", ".sum()", ".sort().len()", ".to_str().len()", ".to_set().len()", " == count()", ".contains(-1)", ".last()", "[-1]", "[1000000000000000]",
                 ".reverse()[0]", ".shuffle()[0]", ".median()", ".mean()", ".max()", ".min()", ".to_stack().len()", ".to_generator().len()", ".filter((x: int)->{false}).len()",
                 ".map((x: int)->{x}).to_array().len()", ".reduce(0, (a: int, b: int)->{a})", ".nth(-1, (x: int)->{true})", ".nth(1000000000, (x: int)->{true})", ".first((x: int)->{false})",
                 ".last((x: int)->{true})", ".n_largest(1000000000000).len()", ".n_smallest(3).len()", ".sample(3).len()", ".random_choices(1000000000000).len()", ".count(1)", ".index_of(-1)",
                 ".hash()", ".cmp(count())", ".to_array()[0]", ".zip(count()).len()", ".enumerate().last()", ".rpush(1).len()", ".insert(0, 1)[0]", ".pop(0)[0]", ".set(5, 1)[5]",
                 ".swap(0, 1000000000000)[0]", ".skip(1000000000000000)[0]", ".take(1000000000000).sum()", "[5:]", "[:1000000000000].len()", ".windows(3).len()", ".chunks(2).len()",
                 ".permutations().len()", ".combinations(2).len()", ".combinations(2)[1000000000000]", ".permutation(100)", ".combination(7, 3)", ".bisect((x: int)->{x < 1000000000000})",
                 ".binary_search(12345678901234, cmp{int, int})", ".json_serialize()", ".sort_reverse().len()", ".rank_eq(5)", ".std()", ".geo_mean()", ".harmonic_mean()", ".mode()", ".unique().len()"]

NUMERIC = ["digits({a}, {b})", "digits({a})", "{a} ** {b}", "pow({a}, {b})", "factorial({a})", "factorial({a}, {b})", "binom({a}, {b})", "multinom([{a}, {b}, {a}])", "permutation({a}, {b})",
           "permutation({a}, {b}, 3)", "combination({a}, {b}, 3)", "combination({a}, {b}, {a})", "combination_with_replacement({a}, {b}, 3)", "combination({a}, {a} - 1, 1)", "combination({a}, div_floor({a} * ({a} - 1), 2) - 1, 2)", "combination_with_replacement({a}, {a} - 1, 1)",
           "permutation({a}, {a} - 1, 1)", "combination({a}, div_floor({a}, 2), 1)", "'ab' * {a}", "[1, 2] * {a}", "([1, 2] * {a}).len()",
           "([1, 2] * {a}).to_array().len()", "format({a}, '>{w}')", "format(1.5, '.{w}')", "format('x', '^{w}')", "format({a}, ',d')", "to_str({a} ** {s})", "({a} ** {s}).to_str().len()",
           "gcd({a}, {b})", "lcm({a}, {b})", "floor_root({a}, {s})", "ceil_root({a}, {s})", "floor_root(10 ** {s}, 3)", "chr({a})", "range({a}).len()", "range({a}).to_array().len()",
           "range({a}, {b}).sum()", "range(0, {a}, {s}).to_array().len()", "range({a}).mean()", "bit_and({a}, {b})", "{a} % {b}", "div_floor({a}, {b})", "{a} * {b}", "{a}.to_float()",
           "{a}.to_str().len()", "int('1' * {s})", "('1' * {s}).len()", "' '.join(['a'] * {s}).len()", "'a'.mul({a}).len()", "'abc'.substring({a}, {b})", "'abc'.repeat({a})[0]",
           "harmonic_mean({a}, {b})", "sleep(seconds({a}.to_float()))", "count().to_generator().take({a}).len()", "count().take({a}).len()", "count().take({a}).to_array().len()",
           "successors(1, (x: int)->{{x * 2}}).get({s})", "successors(2, (x: int)->{{x * x}}).get({s})", "successors(2, (x: int)->{{x * x}}).take({s}).last().bits()", "fraction({a}, {b})",
           "date({a}, 1, 1)", "julian_day(date({a}, 1, 1))", "[{a}].sum()", "[1.5] * {a}", "matrix({s}, {s}, range({s} * {s}).to_array()).len()", "to_set(range({a})).len()",
           "mapping<int>().update(range({a}).map((x: int)->{{(x, x)}}).to_generator()).len()", "regex('(a*)*b').search('a' * {s})", "'a'.split('').len()", "('a' * {s}).split('a').len()",
           "('a' * {s}).replace('a', 'bb').len()", "json_deserialize('[' * {s})", "json_deserialize('[' * {s} + ']' * {s})", "e ** {a}", "2.0 ** {a}", "sqrt({a})", "isqrt({a})",
           "{a}.bits()", "{a}.bit_length()", "random_choices([1, 2], {a}).len()", "sample(range({a}), 3).len()", "shuffle(range({a}))[0]", "binomial_distribution({a}, 0.5).quantile(0.5)",
           "poisson_distribution({a}.to_float()).quantile(0.5)", "poisson_distribution(5.0).sample({a}).len()", "uniform_distribution(0, {a}).sample({s}).len()",
           "hypergeometric_distribution({a}, {b}, {a}).quantile(0.5)", "negative_binomial_distribution({a}.to_float(), 0.5).quantile(0.999999)", "geometric_distribution(0.000000001).quantile(0.999999999)",
           "gamma_distribution({a}.to_float(), 1.0).cdf({a}.to_float())", "chisq_distribution({a}).quantile(0.5)", "gamma_distribution({a}.to_float(), 2.5).quantile(0.5)", "binomial_distribution({a}, 0.5).random()",
           "binomial_distribution({a}, 0.5).sample(3).len()", "hypergeometric_distribution({a}, 3, {a}).sample(3).len()", "hypergeometric_distribution({a}, {b}, {a}).random()", "rectangular_distribution(0.0, {a}.to_float()).random()"]


class Hostile(Inhabiter):
    """type-directed terms whose ints are huge and whose sequences / generators are infinite"""

    def gen(self, t, depth=3):
        rng = self.rng
        if t.kind == "prim" and t.name == "int" and rng.random() < 0.7:
            return ilit(rng.choice(HUGE))
        if t.kind == "native" and t.name in ("Sequence", "Generator") and rng.random() < 0.75:
            et = t.args[0]
            if repr(et) == "int":
                base = rng.choice(SEQ_SOURCES)
            else:
                inner = Inhabiter.gen(self, et, 1)
                if inner is None:
                    return Inhabiter.gen(self, t, depth)
                base = f"count().map((x_: int)->{{{inner}}})" if rng.random() < 0.7 else f"range(1000000000000000).map((x_: int)->{{{inner}}})"
            return base if t.name == "Sequence" else base + ".to_generator()"
        if t.kind == "callable" and rng.random() < 0.5:
            names = [f"p{i}" for i in range(len(t.args))]
            params = ", ".join(f"{n}: {a!r}" for n, a in zip(names, t.args))
            r = repr(t.ret)
            body = {"bool": rng.choice(["true", "false"]), "int": rng.choice(["0", "1", "-1"])}.get(r)
            if body is None:
                same = [n for n, a in zip(names, t.args) if repr(a) == r]
                if same:
                    body = rng.choice(same)
            if body is not None:
                return f"({params})->{{{body}}}"
        return Inhabiter.gen(self, t, depth)


def make_items(ctx):
    rng = ctx.rng
    items = []
    n_pipe = ctx.pick(700, 16000)
    for _ in range(n_pipe):
        e, sig = pipeline(rng)
        items.append({"expr": e, "op": sig, "fam": "pipeline"})
    for _ in range(ctx.pick(300, 6000)):
        src = rng.choice(SEQ_SOURCES)
        c = rng.choice(SEQ_CONSUMERS)
        items.append({"expr": f"{src}{c}", "op": f"seq:{src.split('(')[0].strip('(')}{c.split('(')[0]}", "fam": "sequence"})
    for _ in range(ctx.pick(500, 10000)):
        tmpl = rng.choice(NUMERIC)
        a, b = rng.choice(HUGE), rng.choice(HUGE)
        s = rng.choice([10 ** 5, 10 ** 6, 10 ** 7, 10 ** 9, 3])
        w = rng.choice([10, 10 ** 6, 10 ** 9, 10 ** 12, 1 << 63])
        e = tmpl.format(a=ilit(a), b=ilit(b), s=s, w=w)
        items.append({"expr": e, "op": "num:" + tmpl, "fam": "numeric"})
    overloads, dynamic, types, bad = surface.load(ctx)
    pools = surface.Pools([0, 1, 2, 3, 5, -1, 10 ** 6], [0.0, 0.5, 1.0, 2.0, -1.5, 1e300], ["a", "bc", "", "x y"])
    per = ctx.pick(2, 40)
    for o in overloads:
        if o.name.startswith("__") or o.name in ("sleep", "assert"):
            continue
        for k in range(per):
            inh = Hostile(overloads, rng, pools)
            env = {g: T("prim", "int") for g in o.generics}
            c = inh.call(o, depth=rng.choice([1, 2]), env=env)
            if c is not None:
                items.append({"expr": c, "op": f"{o.name}{o.sig}", "fam": "surface"})
    return items


# ---- time clause ----------------------------------------------------------------------------------
TIME_LOOPS = [
    ("map_over_count", "fn step(n: int)->int{ display(n) + range(400).sum() * 0 }\nlet r = count().map(step).take(1000000).to_array().len();"),
    ("reduce", "fn step(a: int, n: int)->int{ display(n) + a + range(400).sum() * 0 }\nlet r = range(1000000).reduce(0, step);"),
    ("recursion", "fn step(n: int)->int{ if(display(n) >= 4000, n, [1, 2].map((x: int)->{ range(400).sum() })[1] * 0 + step(n + 1) + 0) }\nlet r = step(0);"),
    ("tail_recursion", "fn step(n: int, a: int)->int{ if(display(n) >= 100000000, a, step(n + 1, a + range(400).sum() * 0)) }\nlet r = step(0, 0);"),
    ("tail_recursion_native_body", "fn step(n: int)->int{ if(display(n) < 0, n, step(n + 1)) }\nlet r = step(0);"),
    ("successors", "fn step(n: int)->int{ display(n) + 1 + range(400).sum() * 0 }\nlet r = successors(0, step).get(100000000);"),
    ("filter_first", "fn step(n: int)->bool{ display(n) < 0 && range(400).sum() > 0 }\nlet r = count().to_generator().filter(step).first((x: int)->{true});"),
    ("sort_comparator", "fn c(a: int, b: int)->int{ display(cmp(a, b)) + range(400).sum() * 0 }\nlet r = range(200000).map((x: int)->{(x * 7919) % 200003}).to_array().sort(c).len();"),
    ("exported_function", "fn step(n: int)->int{ display(n) + range(400).sum() * 0 }\nfn main()->int{ count().map(step).take(1000000).to_array().len() }"),
]


def time_cases(ctx):
    cases = []
    for name, src in TIME_LOOPS:
        for t in ctx.pick([300, 1000], [100, 300, 1000, 2500]):
            c = {"id": f"C10-time-{name}-{t}", "source": src, "limits": {"time_ms": t}, "write_times": True, "exports": [], "dump": {"per": 4, "nodes": 20},
                 "meta": {"loop": name, "limit_ms": t}}
            if "fn main" in src:
                c["calls"] = [{"fn": "main"}]
            cases.append(c)
    return cases


TOLERANCE_MS = 250.0


def decide_time(ctx, c, o):
    m = c["meta"]
    if o.get("timeout") or o.get("died") or o.get("harness_error"):
        if o.get("confirmed"):
            ctx.verdicts.violation(f"time|{m['loop']}|never_returned", c, {"expected": "Timeout violation", "observed": "the run did not return within 60 s (confirmed)"})
            return False
        ctx.verdicts.inconclusive_case("worker problem", c)
        return None
    stage = o.get("instantiate") or {}
    if "fn main" in c["source"] and stage.get("outcome") == "ok":
        stage = (o.get("calls") or [{}])[0]
    wt = o.get("write_times") or {}
    last = (wt.get("tail") or [None])[-1]
    if stage.get("outcome") == "panic":
        ctx.verdicts.violation(f"time|{m['loop']}|panic", c, {"expected": "Timeout violation", "observed": stage})
        return False
    if stage.get("outcome") == "ok":
        # the loop ended by itself: legal only if it ended before the deadline (plus tolerance)
        if last is not None and last > m["limit_ms"] + TOLERANCE_MS:
            ctx.verdicts.violation(f"time|{m['loop']}|ran_to_completion_past_the_limit", c, {"expected": f"Timeout after {m['limit_ms']} ms", "observed": {"last_body_started_ms": last, "marks": wt.get("n")}})
            return False
        return None         # too fast a machine for this loop: says nothing
    if stage.get("violation") != "Timeout":
        ctx.verdicts.violation(f"time|{m['loop']}|other_outcome", c, {"expected": "Timeout", "observed": stage})
        return False
    if last is None or wt.get("n", 0) < 5:
        ctx.verdicts.inconclusive_case("no marks recorded", c)
        return None
    if last > m["limit_ms"] + TOLERANCE_MS:
        ctx.verdicts.violation(f"time|{m['loop']}|body_began_after_the_limit", c, {"expected": f"no user function body begins after {m['limit_ms']} ms (+{TOLERANCE_MS} ms tolerance)",
                                                                                 "observed": {"last_body_started_ms": last, "marks": wt.get("n")}})
        return False
    return True


def run(ctx):
    ctx.canary()
    rng = ctx.rng
    items = make_items(ctx)
    # cap the number of items per signature: a defect that is already known costs one timeout, not fifty
    per_sig = {}
    kept = []
    cap = ctx.pick(2, 6)
    for it in items:
        k = it["op"]
        per_sig[k] = per_sig.get(k, 0) + 1
        if per_sig[k] <= cap:
            kept.append(it)
    items = kept
    budget = ctx.pick(8000, 20000)
    total = returned = 0
    kinds, fams, kills, confirmed = {}, {}, 0, 0
    max_ms = 0.0
    by_lim = {}
    for it in items:
        by_lim.setdefault(rng.randrange(len(LIMS)), []).append(it)
    for li, its in sorted(by_lim.items()):
        # values are forced by the shape walker (64 elements per container) but not rendered: rendering a 4 MiB integer in decimal is the dump hook's cost
        cases = [{"id": f"C10-{li}-{k}", "source": f"let r0 = {it['expr']};", "exports": ["r0"], "dump": None, "dump_all": False, "shape": True,
                  "limits": LIMS[li], "perms": {"regex": True, "sleep": False}} for k, it in enumerate(its)]
        obs = ctx.run(cases, name=f"C10_{li}", case_timeout_ms=budget)
        for it, case, o in zip(its, cases, obs):
            total += 1
            fail = batch.program_failure(o)
            k = "returned" if fail is None else fail["kind"]
            if fail is None and ((o.get("bindings") or {}).get("r0") or {}).get("force_panic"):
                k = "panic"
            kinds[k] = kinds.get(k, 0) + 1
            fams.setdefault(it["fam"], {}).setdefault(k, 0)
            fams[it["fam"]][k] += 1
            if k == "inconclusive":
                ctx.verdicts.inconclusive_case(str(fail.get("detail"))[:200], case)
                continue
            if k in ("died", "timeout"):
                confirmed += 1
                ctx.verdicts.violation(f"{'no_return' if k == 'timeout' else 'killed'}|{it['op'][:90]}", case,
                                       {"expr": it["expr"], "limits": LIMS[li], "expected": f"returns (value, error or violation) within {budget / 1000:.0f} s and 6 GiB",
                                        "observed": f"{k} (confirmed by a solo re-run with 3x the budget): " + str(fail.get("detail"))[:200]})
                continue
            returned += 1
            max_ms = max(max_ms, (o.get("instantiate") or {}).get("ms") or 0.0)
    # ---- time clause
    tcases = time_cases(ctx)
    tobs = ctx.run(tcases, name="C10_time", case_timeout_ms=60000, nproc=4)
    t_ok = t_decided = 0
    lateness = []
    for c, o in zip(tcases, tobs):
        total += 1
        r = decide_time(ctx, c, o)
        if r is None:
            continue
        t_decided += 1
        t_ok += bool(r)
        wt = o.get("write_times") or {}
        if wt.get("tail"):
            lateness.append(round(wt["tail"][-1] - c["meta"]["limit_ms"], 1))
    samples = [{"expr": items[0]["expr"], "limits": LIMS[0]}, {"expr": next(i["expr"] for i in items if i["fam"] == "numeric")}, {"time_loop": TIME_LOOPS[0][1], "limit_ms": 300}]
    cov = {"evaluations": total, "distinct_nontrivial": len({i["expr"] for i in items}) + len(tcases),
           "rule": "one evaluation = one expression evaluated in its own program under a finite limit configuration inside a watched worker process (returned / killed), "
                   "or one time-limit loop with timestamped body marks; distinct = distinct texts", "samples": samples,
           "returned": returned, "outcome_kinds": kinds, "by_family": fams, "kills_confirmed": confirmed, "budget_ms": budget, "slowest_returning_evaluation_ms": round(max_ms), "distinct_signatures": len(per_sig),
           "time_clause": {"loops": len(TIME_LOOPS), "cases": len(tcases), "decided": t_decided, "held": t_ok, "last_mark_minus_limit_ms": lateness, "tolerance_ms": TOLERANCE_MS}}
    return {"coverage": cov, "broken": None if returned > 300 and t_decided >= 4 else "too few evaluations returned / too few time loops decided",
            "assumptions": ["the recursion limit is configured together with the search and call limits (a tail-recursive loop is bounded by it, not by the call limit)",
                            f"bounded restatement: return within {budget} ms (solo: 3x) and 6 GiB address space; slower-but-finite work above that bound is reported, unbounded growth below it is invisible",
                            "sleep is not permitted in these runs", f"time clause: tolerance {TOLERANCE_MS} ms between the deadline and the start of the last body (scheduling noise); loops that finish before the limit decide nothing"]}


def replay(ctx, rec):
    c = rec["case"]
    big = 60000
    o = ctx.run([c], name="C10_replay", case_timeout_ms=big)[0]
    print(c["source"][-600:], c.get("limits"))
    if c.get("write_times"):
        r = decide_time(ctx, c, o)
        if r is False:
            return ctx.verdicts.finish()
        print("replay: not reproduced")
        return 0
    if o.get("timeout") or o.get("died"):
        print("observed: no return within", big, "ms")
        print(f"VIOLATION property={ctx.prop} replay=<replayed>")
        return 1
    print("observed:", {k: o.get(k) for k in ("instantiate",)})
    print("replay: not reproduced")
    return 0
