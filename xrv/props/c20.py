"""C20 Documented conversions are mutually inverse and canonical.
Oracles: Python json, fractions.Fraction, chr/ord, a days-from-civil algorithm independent of the
formulas in the standard library."""
import json
import math
from fractions import Fraction

from .. import batch, core
from ..batch import AnyOf, Approx, Err, Skip
from .c18 import lit as slit

LEVEL = "exploration"


def ilit(n):
    if -(1 << 126) < n < (1 << 126):
        return str(n) if n >= 0 else f"({n})"
    return f'"{n}".to_int()'


# ---- civil calendar (Howard Hinnant's days_from_civil / civil_from_days), JDN offset 2440588 at 1970-01-01

def days_from_civil(y, m, d):
    y -= m <= 2
    era = y // 400          # python's // floors (the C++ original compensates for truncation)
    yoe = y - era * 400
    doy = (153 * (m + (-3 if m > 2 else 9)) + 2) // 5 + d - 1
    doe = yoe * 365 + yoe // 4 - yoe // 100 + doy
    return era * 146097 + doe - 719468


def civil_from_days(z):
    z += 719468
    era = z // 146097
    doe = z - era * 146097
    yoe = (doe - doe // 1460 + doe // 36524 - doe // 146096) // 365
    y = yoe + era * 400
    doy = doe - (365 * yoe + yoe // 4 - yoe // 100)
    mp = (5 * doy + 2) // 153
    d = doy - (153 * mp + 2) // 5 + 1
    m = mp + (3 if mp < 10 else -9)
    return (y + (m <= 2), m, d)


JD_UNIX = 2440588


def flit(x):
    r = repr(float(x))
    if "e" in r or "E" in r:
        m, e = r.lower().split("e")
        if "." not in m:
            m += ".0"
        return f"({m}e{int(e)})" if float(x) >= 0 else f"(-{m.lstrip('-')}e{int(e)})"
    return r if x >= 0 else f"({r})"


def gen_json_doc(rng, depth):
    k = rng.random()
    if depth <= 0 or k < 0.45:
        c = rng.random()
        if c < 0.3:
            v = rng.choice([0.0, 1.0, -1.0, 1.5, 0.1, 1e300, -1e-300, 123456789.125, 2.0 ** 53, 5e-324, 1.7976931348623157e308,
                            float(rng.randint(-10 ** 6, 10 ** 6)), rng.uniform(-1e6, 1e6), rng.uniform(-1, 1) * 10 ** rng.randint(-300, 300)])
            return v
        if c < 0.55:
            alpha = ["a", "b", " ", '"', "\\", "/", "\n", "\t", "\r", "\b", "\f", "\u0001", "\u001f", "é", "€", "\U0001F600", " ", "{", "}", "'", "\u007f"]
            return "".join(rng.choice(alpha) for _ in range(rng.choice([0, 1, 2, 3, 5])))
        if c < 0.75:
            return rng.random() < 0.5
        if c < 0.9:
            return None
        return float(rng.randint(-5, 5))
    if k < 0.75:
        return [gen_json_doc(rng, depth - 1) for _ in range(rng.choice([0, 1, 2, 3]))]
    keys = []
    d = {}
    for _ in range(rng.choice([0, 1, 2, 3])):
        key = "".join(rng.choice(["a", "b", "k", "é", '"', "\\", " ", "\U0001F600", "\n"]) for _ in range(rng.choice([0, 1, 2, 3])))
        d[key] = gen_json_doc(rng, depth - 1)
    return d


def json_expr(doc):
    if doc is None:
        return "json(())"
    if isinstance(doc, bool):
        return "json(true)" if doc else "json(false)"
    if isinstance(doc, float):
        return f"json({flit(doc)})"
    if isinstance(doc, str):
        return f"json({slit(doc, style='uni')})"
    if isinstance(doc, list):
        if not doc:
            return "json([json(())].skip(1))"
        return "json([" + ", ".join(json_expr(x) for x in doc) + "])"
    m = "mapping<str>()"
    if not doc:
        return 'json(mapping<str>().set("k", json(())).discard("k"))'
    for k, v in doc.items():
        m += f".set({slit(k, style='uni')}, {json_expr(v)})"
    return f"json({m})"


def gen_items(ctx):
    rng = ctx.rng
    items = []

    def add(expr, expect, fam, check=None):
        items.append({"expr": expr, "expect": expect, "op": fam, "check": check})

    # ---- JSON
    for _ in range(ctx.pick(250, 8000)):
        doc = gen_json_doc(rng, rng.randint(0, 5))
        x = json_expr(doc)
        # serialize -> independent parser; deserialise(serialise) == original; deserialise(python text) serialises back
        add(f"serialize({x})", Skip(), "json_serialize", ("json_text", doc))
        add(f"(json_deserialize(serialize({x})) == {x})", True, "json_roundtrip")
        text = json.dumps(doc, ensure_ascii=rng.random() < 0.5, separators=rng.choice([(",", ":"), (", ", ": "), (" ,\n", " :\t")]))
        add(f"serialize(json_deserialize({slit(text, style='uni')}))", Skip(), "json_deserialize", ("json_text", doc))
        add(f"(json_deserialize({slit(text, style='uni')}) == {x})", True, "json_deserialize_eq")
    for bad in ['{"a":}', "[1,", "tru", '"abc', "{'a':1}", "[1 2]", "", "nul", '{"a":1,}', "01", "1e400", "-1e400", '"\\ud800"', "NaN", "Infinity", '{"a":1}x']:
        add(f"json_deserialize({slit(bad, style='uni')})", Err(), "json_invalid")
    # ---- calendar
    edges = []
    for y in (-400, -1, 0, 1, 4, 100, 400, 1582, 1600, 1700, 1800, 1900, 1970, 2000, 2024, 2100, 2400, 3000):
        for (m, d) in ((1, 1), (2, 28), (2, 29), (3, 1), (12, 31), (6, 15)):
            edges.append((y, m, d))
    for _ in range(ctx.pick(300, 20000)):
        if rng.random() < 0.3:
            y, m, d = rng.choice(edges)
            if (m, d) == (2, 29) and civil_from_days(days_from_civil(y, 2, 29)) != (y, 2, 29):
                d = 28
        else:
            j0 = rng.randint(0, 3_000_000) if rng.random() < 0.8 else rng.randint(-3_000_000, 0)
            y, m, d = civil_from_days(j0 - JD_UNIX)
        j = days_from_civil(y, m, d) + JD_UNIX
        fam = "cal" if j >= 0 else "cal_negative_jd"
        add(f"(Date({ilit(y)}, {m}, {d}).julian_day(), date({ilit(j)}).members(), date(Date({ilit(y)}, {m}, {d}).julian_day()).members(), Date({ilit(y)}, {m}, {d}).weekday())",
            (j, (y, m, d), (y, m, d), j % 7), fam)
    # consecutive days around boundaries: stride 1
    for _ in range(ctx.pick(20, 600)):
        y = rng.choice([-1, 0, 1, 100, 400, 1600, 1900, 2000, 2023, 2024, 2100])
        base = days_from_civil(y, rng.choice([1, 2, 3, 12]), rng.choice([1, 27, 28])) + JD_UNIX
        for j in range(base, base + 6):
            y2, m2, d2 = civil_from_days(j - JD_UNIX)
            add(f"(date({ilit(j)}).members(), date({ilit(j)}).julian_day(), date({ilit(j)}).weekday())", ((y2, m2, d2), j, j % 7),
                "cal_stride" if j >= 0 else "cal_negative_jd")
    # ---- datetime <-> unix seconds
    for _ in range(ctx.pick(250, 10000)):
        c = rng.random()
        if c < 0.3:
            u = float(rng.randint(-10 ** 11, 10 ** 11))
        elif c < 0.5:
            u = rng.choice([0.0, -1.0, 1.0, 86399.0, 86400.0, -86400.0, -86401.0, 59.0, 60.0, 3599.0, 3600.0, 951782400.0, 4107542400.0, -0.5, 0.5, -0.25])
        elif c < 0.8:
            u = rng.randint(-10 ** 10, 10 ** 10) + rng.choice([0.5, 0.25, 0.125, 0.75])
        else:
            u = float(rng.randint(-10 ** 6, 10 ** 6))
        days = math.floor(u / 86400)
        rem = u - days * 86400
        hh = int(rem // 3600)
        mm = int((rem % 3600) // 60)
        ss = rem - hh * 3600 - mm * 60
        y, m, d = civil_from_days(days)
        fam = "datetime" if days + JD_UNIX >= 0 else "datetime_negative_jd"
        add(f"(unix(datetime({flit(u)})), datetime({flit(u)})::date.members(), datetime({flit(u)})::hours, datetime({flit(u)})::minutes, datetime({flit(u)})::seconds)",
            (u, (y, m, d), hh, mm, ss), fam)
        add(f"unix(Datetime(Date({ilit(y)}, {m}, {d}), {hh}, {mm}, {flit(ss)}))", u, fam + "_from_parts")
    # ---- fractions
    def rnd_big():
        c = rng.random()
        if c < 0.4:
            return rng.randint(-20, 20)
        if c < 0.7:
            return rng.randint(-10 ** 6, 10 ** 6)
        return rng.choice([1, -1]) * rng.getrandbits(rng.choice([54, 60, 64, 70]))
    for _ in range(ctx.pick(300, 10000)):
        a, b, c, d = rnd_big(), rnd_big(), rnd_big(), rnd_big()
        if b == 0 or d == 0:
            add(f"fraction({ilit(a)}, 0)", Err(), "fraction_zero_den")
            continue
        fa, fb = Fraction(a, b), Fraction(c, d)
        A, B = f"fraction({ilit(a)}, {ilit(b)})", f"fraction({ilit(c)}, {ilit(d)})"
        add(f"{A}.members()", (fa.numerator, fa.denominator), "fraction_canonical")
        for sym, name, fn in (("+", "add", lambda x, y: x + y), ("-", "sub", lambda x, y: x - y), ("*", "mul", lambda x, y: x * y)):
            r = fn(fa, fb)
            add(f"({A} {sym} {B}).members()", (r.numerator, r.denominator), "fraction_" + name)
        if fb != 0:
            r = fa / fb
            add(f"({A} / {B}).members()", (r.numerator, r.denominator), "fraction_div")
            r = fa % fb
            add(f"({A} % {B}).members()", (r.numerator, r.denominator), "fraction_mod")
        add(f"({A} == {B}, cmp({A}, {B}) > 0, cmp({A}, {B}) < 0, {A}.floor(), {A}.ceil(), {A}.trunc(), (-{A}).members(), {A}.abs().members(), {A}.sign())",
            (fa == fb, fa > fb, fa < fb, math.floor(fa), math.ceil(fa), math.trunc(fa), ((-fa).numerator, (-fa).denominator),
             (abs(fa).numerator, abs(fa).denominator), (fa > 0) - (fa < 0)), "fraction_misc")
        e = rng.choice([0, 1, 2, 3, -1, -2])
        if not (fa == 0 and e <= 0):      # 0 ** 0 is an error for ints (documented); 0 ** negative has no value
            r = fa ** e
            add(f"({A} ** {ilit(e)}).members()", (r.numerator, r.denominator), "fraction_pow")
        # equal fractions are equal and hash equally however written
        k = rng.choice([2, 3, -1, -7, 10 ** 20 + 3])
        add(f"(fraction({ilit(a * k)}, {ilit(b * k)}) == {A}, hash(fraction({ilit(a * k)}, {ilit(b * k)})) == hash({A}))", (True, True), "fraction_equal_forms")
    # ---- code points
    for _ in range(ctx.pick(200, 6000)):
        cp = rng.choice([0, 1, 0x41, 0x7f, 0x80, 0x7ff, 0x800, 0xd7ff, 0xd800, 0xdbff, 0xdfff, 0xe000, 0xffff, 0x10000, 0x10ffff, 0x110000, -1,
                         1 << 32, 1 << 64, rng.randrange(0x110000), rng.randrange(0x110000)])
        if 0 <= cp < 0x110000 and not (0xd800 <= cp < 0xe000):
            add(f"(chr({ilit(cp)}).code_point(), chr({ilit(cp)}).len(), chr(chr({ilit(cp)}).code_point()) == chr({ilit(cp)}))", (cp, 1, True), "chr_code_point")
        else:
            add(f"chr({ilit(cp)})", Err(), "chr_invalid")
    # ---- int <-> text in every base (round trip form; C14 checks the values)
    for _ in range(ctx.pick(150, 5000)):
        n = rng.choice([1, -1]) * rng.getrandbits(rng.choice([1, 8, 31, 63, 64, 65, 127, 128, 200]))
        add(f"({ilit(n)}).to_str().to_int()", n, "int_text_10")
        for spec, base in (("x", 16), ("o", 8), ("b", 2)):
            add(f'format({ilit(n)}, "{spec}").to_int({base})', n, f"int_text_{base}")
    rng.shuffle(items)
    return items


def run(ctx):
    ctx.canary()
    items = gen_items(ctx)
    outs, cases = batch.run_items(ctx, items, per_program=25, dump={"per": 64, "nodes": 4000})
    ok = 0
    fams = {}
    distinct = set()
    for it, out, case in zip(items, outs, cases):
        distinct.add(it["expr"])
        fams[it["op"]] = fams.get(it["op"], 0) + 1
        if out["kind"] == "inconclusive":
            ctx.verdicts.inconclusive_case(str(out.get("detail")), case)
            continue
        good = batch.matches(it["expect"], out)
        why = "differs"
        if good and it["check"] and it["check"][0] == "json_text":
            # the text must be read by an independent parser as the same document
            if out["kind"] != "value" or out["dump"][0] != "s":
                good, why = False, "not_a_string"
            else:
                try:
                    parsed = json.loads(out["dump"][1])
                    good = parsed == it["check"][1] and type(parsed) is type(it["check"][1]) or (parsed == it["check"][1] and isinstance(parsed, (int, float)))
                    why = "document_differs"
                except ValueError:
                    good, why = False, "independent_parser_rejects"
        if good:
            ok += 1
            continue
        if out["kind"] == "panic":
            why = "panic:" + core.panic_sig(out.get("panic"))
        elif out["kind"] in ("died", "timeout", "violation", "rejected"):
            why = out["kind"] + ":" + str(out.get("class") or out.get("violation") or "")
        elif isinstance(it["expect"], Err):
            why = "value_where_error_expected"
        elif out["kind"] == "error":
            why = "error_where_value_expected"
        ctx.verdicts.violation(f"{it['op']}|{why}", batch.solo_case(ctx, it), {
            "expr": it["expr"], "expected": repr(it["expect"]) if not it["check"] else json.dumps(it["check"][1])[:400],
            "observed": {k: out.get(k) for k in ("kind", "raw", "panic", "err", "class", "violation")}})
    samples = [{"expr": it["expr"][:300], "expected": repr(it["expect"])[:200], "observed": o.get("raw")} for it, o in list(zip(items, outs))[:4]]
    cov = {"evaluations": len(items), "distinct_nontrivial": len(distinct),
           "rule": "one evaluation = one conversion expression evaluated by the interpreter and compared with the independent oracle "
                   "(Python json / fractions / chr / civil-calendar algorithm); distinct = distinct expression texts",
           "samples": samples, "agreeing": ok, "round_trips_per_family": fams}
    return {"coverage": cov, "broken": None if ok > 0 and len(items) > 100 else "nothing agreed",
            "assumptions": ["Julian days below 0 are reported under their own signature family",
                            "JSON numbers are compared as doubles"]}


def replay(ctx, rec):
    case = rec["case"]
    obs = ctx.run([case], name="C20_replay")[0]
    fail = batch.program_failure(obs)
    out = fail if fail is not None else batch.binding_outcome(obs.get("bindings", {}).get("r0"))
    print("expr:", rec["detail"]["expr"])
    print("expected:", rec["detail"]["expected"])
    print("observed:", {k: out.get(k) for k in ("kind", "raw", "panic", "err", "violation")})
    was = rec["detail"]["observed"]
    if was.get("raw") == out.get("raw") and was.get("kind") == out.get("kind"):
        print(f"VIOLATION property={ctx.prop} replay=<replayed: same observation as recorded>")
        return 1
    print("replay: observation differs from the recorded violation (not reproduced)")
    return 0
