"""C07 Tail-call optimisation is semantically transparent.
One recursive skeleton per syntactic placement of the self-call; the closed-form result is the
reference; the hook's tail-iteration / frame-height tallies and small depth limits show whether the
call was trampolined."""
from .. import batch, core

LEVEL = "exploration"
BIG = 1 << 40

# (name, class, source with {K}, result(K))      class: tail | nontail | either
S = lambda K: K * (K + 1) // 2
PLACEMENTS = [
    ("if_else", "tail", "fn r(n: int, acc: int)->int{{ if(n <= 0, acc, r(n - 1, acc + n)) }}\nlet x = r({K}, 0);", S),
    ("if_then", "tail", "fn r(n: int, acc: int)->int{{ if(n > 0, r(n - 1, acc + n), acc) }}\nlet x = r({K}, 0);", S),
    ("if_method", "tail", "fn r(n: int, acc: int)->int{{ (n <= 0).if(acc, r(n - 1, acc + n)) }}\nlet x = r({K}, 0);", S),
    ("nested_if", "tail", "fn r(n: int, acc: int)->int{{ if(n <= 0, acc, if(n % 2 == 0, r(n - 1, acc + n), r(n - 1, acc + n))) }}\nlet x = r({K}, 0);", S),
    ("if_error2", "tail", "fn r(n: int, acc: int)->int{{ if(n <= 0, acc, if_error(error('e'), r(n - 1, acc + n))) }}\nlet x = r({K}, 0);", S),
    ("if_error3", "tail", "fn r(n: int, acc: int)->int{{ if(n <= 0, acc, if_error(error('boom'), 'boom', r(n - 1, acc + n))) }}\nlet x = r({K}, 0);", S),
    ("bool_or", "tail", "fn r(n: int)->bool{{ n <= 0 || r(n - 1) }}\nlet x = r({K});", lambda K: True),
    ("bool_and", "tail", "fn r(n: int)->bool{{ if(n <= 0, false, n > 0 && r(n - 1)) }}\nlet x = r({K});", lambda K: False),
    ("opt_or", "tail", "fn r(n: int, acc: int)->int{{ or(if(n <= 0, some(acc), none()), r(n - 1, acc + n)) }}\nlet x = r({K}, 0);", S),
    ("map_or_default", "tail", "fn r(n: int, acc: int)->int{{ if(n <= 0, some(acc), none()).map_or((v: int)->{{v}}, r(n - 1, acc + n)) }}\nlet x = r({K}, 0);", S),
    ("with_default_param", "tail", "fn r(n: int, acc: int ?= 0)->int{{ if(n <= 0, acc, r(n - 1, acc + n)) }}\nlet x = r({K});", S),
    ("with_local_lets", "tail", "fn r(n: int, acc: int)->int{{ let m = n - 1; let a2 = acc + n; if(n <= 0, acc, r(m, a2)) }}\nlet x = r({K}, 0);", S),
    ("nested_fn_tail", "tail", "fn outer(k: int)->int{{ fn r(n: int, acc: int)->int{{ if(n <= 0, acc + k, r(n - 1, acc + n)) }} r(k, 0) }}\nlet x = outer({K});", lambda K: S(K) + K),
    ("str_result", "tail", "fn r(n: int, acc: str)->str{{ if(n <= 0, acc, r(n - 1, if(n % 100 == 0, acc + 'x', acc))) }}\nlet x = r({K}, '').len();", lambda K: K // 100),
    ("swap_args", "tail", "fn r(a: int, b: int, n: int)->int{{ if(n <= 0, a * 1000 + b, r(b, a, n - 1)) }}\nlet x = r(1, 2, {K});", lambda K: 1002 if K % 2 == 0 else 2001),
    # ---- not tail positions
    ("under_add", "nontail", "fn r(n: int)->int{{ if(n <= 0, 0, n + r(n - 1)) }}\nlet x = r({K});", S),
    ("under_add_left", "nontail", "fn r(n: int)->int{{ if(n <= 0, 0, r(n - 1) + n) }}\nlet x = r({K});", S),
    ("under_neg", "nontail", "fn r(n: int)->int{{ if(n <= 0, 0, -r(n - 1)) }}\nlet x = r({K});", lambda K: 0),
    ("arg_of_user_fn", "nontail", "fn g(v: int)->int{{ v }}\nfn r(n: int, acc: int)->int{{ if(n <= 0, acc, g(r(n - 1, acc + n))) }}\nlet x = r({K}, 0);", S),
    ("arg_of_native", "nontail", "fn r(n: int, acc: int)->int{{ if(n <= 0, acc, max(r(n - 1, acc + n), 0)) }}\nlet x = r({K}, 0);", S),
    ("in_tuple", "nontail", "fn r(n: int, acc: int)->int{{ if(n <= 0, acc, (r(n - 1, acc + n),)::item0) }}\nlet x = r({K}, 0);", S),
    ("in_array", "nontail", "fn r(n: int, acc: int)->int{{ if(n <= 0, acc, [r(n - 1, acc + n)][0]) }}\nlet x = r({K}, 0);", S),
    ("in_condition", "nontail", "fn r(n: int)->int{{ if(n <= 0, 0, if(r(n - 1) >= 0, n, 0 - 1)) }}\nlet x = r({K});", lambda K: K if K > 0 else 0),
    ("inside_lambda", "nontail", "fn r(n: int, acc: int)->int{{ if(n <= 0, acc, ((m: int)->{{ r(m, acc + n) }})(n - 1)) }}\nlet x = r({K}, 0);", S),
    ("via_alias", "nontail", "fn r(n: int, acc: int)->int{{ let g = r; if(n <= 0, acc, g(n - 1, acc + n)) }}\nlet x = r({K}, 0);", S),
    ("via_inner_fn", "nontail", "fn r(n: int, acc: int)->int{{ fn h(m: int, a: int)->int{{ r(m, a) }} if(n <= 0, acc, h(n - 1, acc + n)) }}\nlet x = r({K}, 0);", S),
    ("mutual", "nontail", "forward fn odd(n: int)->bool;\nfn even(n: int)->bool{{ if(n == 0, true, odd(n - 1)) }}\nfn odd(n: int)->bool{{ if(n == 0, false, even(n - 1)) }}\nlet x = even({K});", lambda K: K % 2 == 0),
    ("first_arg_of_or", "nontail", "fn r(n: int)->bool{{ if(n <= 0, false, r(n - 1) || n < 0) }}\nlet x = r({K});", lambda K: False),
    ("let_then_return", "nontail", "fn r(n: int, acc: int)->int{{ let v = if(n <= 0, acc, r(n - 1, acc + n)); v }}\nlet x = r({K}, 0);", S),
    # ---- identity wrappers the implementation sees through: only the result is checked
    ("cast_wrapper", "either", "fn r(n: int, acc: int)->int{{ if(n <= 0, acc, cast<int>(r(n - 1, acc + n))) }}\nlet x = r({K}, 0);", S),
    ("to_str_wrapper", "either", "fn r(n: int, acc: str)->str{{ if(n <= 0, acc, to_str(r(n - 1, acc))) }}\nlet x = r({K}, 'q');", lambda K: "q"),
]
# per class: the number of frames / user calls a run needs (height of the deepest frame, calls counted)
NEED_DEPTH = {"under_add": lambda K: K + 1, "under_add_left": lambda K: K + 1, "under_neg": lambda K: K + 1, "arg_of_user_fn": lambda K: K + 1,
              "arg_of_native": lambda K: K + 1, "in_tuple": lambda K: K + 1, "in_array": lambda K: K + 1, "in_condition": lambda K: K + 1,
              "inside_lambda": lambda K: 2 * K + 1, "via_alias": lambda K: K + 1, "via_inner_fn": lambda K: 2 * K + 1, "mutual": lambda K: K + 1,
              "first_arg_of_or": lambda K: K + 1, "let_then_return": lambda K: K + 1}


# an error handed to the next iteration in an argument the loop never looks at: with or without the trampoline the call's result is that error
ERR_LOOPS = [
    ("err_arg_if_else", "tail", "fn r(n: int, junk: int, acc: int)->int{{ if(n <= 0, acc, r(n - 1, if(n == {J}, error('EJ'), 0), acc + n)) }}\nlet x = r({K}, 0, 0);"),
    ("err_arg_under_add", "nontail", "fn r(n: int, junk: int, acc: int)->int{{ if(n <= 0, acc, 0 + r(n - 1, if(n == {J}, error('EJ'), 0), acc + n)) }}\nlet x = r({K}, 0, 0);"),
    ("err_arg_bool_or", "tail", "fn r(n: int, junk: int)->bool{{ n <= 0 || r(n - 1, if(n == {J}, error('EJ'), 0)) }}\nlet x = r({K}, 0);"),
    ("err_arg_if_method", "tail", "fn r(n: int, junk: int, acc: int)->int{{ (n <= 0).if(acc, r(n - 1, if(n == {J}, error('EJ'), 0), acc + n)) }}\nlet x = r({K}, 0, 0);"),
    ("err_arg_default_param", "tail", "fn r(n: int, acc: int, junk: int ?= 0)->int{{ if(n <= 0, acc, if(n == {J}, r(n - 1, acc + n, error('EJ')), r(n - 1, acc + n))) }}\nlet x = r({K}, 0);"),
    ("err_arg_nested_fn", "tail", "fn outer(k: int)->int{{ fn r(n: int, junk: int, acc: int)->int{{ if(n <= 0, acc, r(n - 1, if(n == {J}, error('EJ'), 0), acc + n)) }} r(k, 0, 0) }}\nlet x = outer({K});"),
]


def gen_cases(ctx):
    cases = []
    for name, cls, tmpl in ERR_LOOPS:
        for K in (1, 3, 10, 200):
            for J in sorted({1, 2, K, K // 2 + 1, K + 5}):
                c = {"source": tmpl.format(K=K, J=J), "exports": ["x"], "dump": {"per": 16, "nodes": 100}, "limits": {"ud_call": BIG}, "id": f"C07-{name}-{K}-{J}", "timeout_ms": 60000,
                     "meta": {"name": name, "cls": cls, "K": K, "J": J, "errfam": True, "expect_error": 1 <= J <= K, "expect": (True if "bool" in name else S(K)), "lim": {"ud_call": BIG}}}
                cases.append(c)
    for name, cls, tmpl, fres in PLACEMENTS:
        Ks = [0, 1, 2, 3, 10] + ([1000] if cls != "tail" else [1000, 100000]) if not ctx.quick else [0, 1, 3, 10] + ([300] if cls != "tail" else [1000, 20000])
        for K in Ks:
            src = tmpl.format(K=K)
            base = {"source": src, "exports": ["x"], "dump": {"per": 16, "nodes": 100}}
            lims = [{"ud_call": BIG}, {"ud_call": BIG, "depth": 5}, {"ud_call": BIG, "depth": 50}]
            if cls == "tail":
                lims += [{"recursion": K}, {"recursion": max(0, K - 1)}, {"recursion": K + 1}]
            for lim in lims:
                c = dict(base)
                c["limits"] = lim
                c["id"] = f"C07-{name}-{K}-{sorted(lim.items())}"
                c["timeout_ms"] = 60000
                c["meta"] = {"name": name, "cls": cls, "K": K, "expect": fres(K), "lim": lim}
                cases.append(c)
    return cases


def decide(ctx, c, o):
    meta = c["meta"]
    name, cls, K, lim = meta["name"], meta["cls"], meta["K"], meta["lim"]
    fail = batch.program_failure(o)
    snap = (o.get("instantiate") or {}).get("snap", {})
    if fail is not None and fail["kind"] == "inconclusive":
        ctx.verdicts.inconclusive_case(str(fail), c)
        return None
    if fail is not None and fail["kind"] in ("panic", "died", "timeout", "rejected"):
        ctx.verdicts.violation(f"{name}|{fail['kind']}" + (":" + core.panic_sig(fail.get("panic")) if fail["kind"] == "panic" else ""), c,
                               {"expected": meta, "observed": fail})
        return False
    if meta.get("errfam"):
        if fail is not None:
            ctx.verdicts.violation(f"{name}|unexpected_violation:{fail.get('violation')}", c, {"expected": meta, "observed": fail})
            return False
        out = batch.binding_outcome(o["bindings"].get("x"))
        if meta["expect_error"]:
            good = out["kind"] == "error" and "EJ" in str(out.get("raw"))
        else:
            good = batch.matches(meta["expect"], out)
        if not good:
            ctx.verdicts.violation(f"{name}|{'error_argument_of_a_self_call_lost' if meta['expect_error'] else 'result_differs'}", c,
                                   {"expected": "error EJ" if meta["expect_error"] else meta["expect"], "observed": out.get("raw")})
            return False
        return True
    depth_lim, rec_lim = lim.get("depth"), lim.get("recursion")
    expect_violation = None
    if cls == "tail":
        if rec_lim is not None and K > rec_lim:
            expect_violation = "MaximumRecursion"
        # a trampolined call consumes no depth: every depth limit >= 2 (outer + r) is enough
        if depth_lim is not None and name == "nested_fn_tail" and depth_lim < 3:
            expect_violation = "MaximumStackDepth"
    elif cls == "nontail":
        if depth_lim is not None and NEED_DEPTH[name](K) >= depth_lim:
            expect_violation = "MaximumStackDepth"
    else:
        if depth_lim is not None:
            return None         # identity wrappers: either behaviour is transparent; only unlimited results are checked
    if fail is not None:        # a violation
        if fail["violation"] == expect_violation:
            return True
        why = "tail_call_consumed_stack" if (cls == "tail" and fail["violation"] == "MaximumStackDepth") else "unexpected_violation"
        ctx.verdicts.violation(f"{name}|{why}:{fail['violation']}", c, {"expected": {"violation": expect_violation, **meta}, "observed": {"violation": fail["violation"], "snap": snap}})
        return False
    if expect_violation is not None:
        why = "non_tail_call_was_trampolined" if cls == "nontail" else "missing_violation"
        ctx.verdicts.violation(f"{name}|{why}", c, {"expected": {"violation": expect_violation, **meta}, "observed": {"x": o["bindings"]["x"].get("dump"), "snap": snap}})
        return False
    out = batch.binding_outcome(o["bindings"].get("x"))
    if not batch.matches(meta["expect"], out):
        ctx.verdicts.violation(f"{name}|result_differs", c, {"expected": meta, "observed": out.get("raw")})
        return False
    # tallies (only where the counters run: ud_call limit set)
    if "ud_call" in lim:
        tails, height = snap.get("tail_iters", 0), snap.get("max_height", 0)
        if cls == "tail" and (tails != K or height > 2):
            ctx.verdicts.violation(f"{name}|tail_not_trampolined", c, {"expected": {"tail_iters": K, "max_height": "<= 2"}, "observed": snap})
            return False
        if cls == "nontail" and tails != 0:
            ctx.verdicts.violation(f"{name}|non_tail_call_was_trampolined", c, {"expected": {"tail_iters": 0}, "observed": snap})
            return False
        if cls == "nontail" and height != NEED_DEPTH[name](K) and K > 0:
            ctx.verdicts.violation(f"{name}|frame_height_differs", c, {"expected": {"max_height": NEED_DEPTH[name](K)}, "observed": snap})
            return False
    return True


def run(ctx):
    ctx.canary()
    cases = gen_cases(ctx)
    obs = ctx.run(cases, name="C07", case_timeout_ms=60000)
    ok = decided = 0
    placements, deep = set(), 0
    for c, o in zip(cases, obs):
        r = decide(ctx, c, o)
        if r is None:
            continue
        decided += 1
        ok += bool(r)
        placements.add(c["meta"]["name"])
        if c["meta"]["cls"] == "tail" and c["meta"]["K"] >= 1000 and c["meta"]["lim"].get("depth"):
            deep += 1
    samples = [{"source": c["source"], "limits": c["limits"], "expect": c["meta"]["expect"], "snap": (o.get("instantiate") or {}).get("snap")}
               for c, o in list(zip(cases, obs))[4:7]]
    cov = {"evaluations": len(cases), "distinct_nontrivial": len({(c["source"], str(c["limits"])) for c in cases}),
           "rule": "one evaluation = one (placement, iteration count, limit configuration) execution; the result is compared with the closed form, "
                   "the tail-iteration and frame-height tallies of the hooks with what the placement class prescribes; distinct = distinct (source, limits)",
           "samples": samples, "agreeing": ok, "decided": decided, "distinct_placements": len(placements),
           "tail_runs_with_iterations_far_above_depth_limit": deep, "iteration_counts": sorted({c["meta"]["K"] for c in cases})}
    return {"coverage": cov, "broken": None if ok > 50 else "too few agreeing executions",
            "assumptions": ["tail positions: the function body itself, the selected branch of if / if_error, the second operand of and / or, the default of optional or / map_or",
                            "identity wrappers (cast, to_str on a string) may or may not be seen through: only their results are checked",
                            "without a depth limit native stack exhaustion is the host's responsibility: non-tail placements are run to 1000 nested calls only"]}


def replay(ctx, rec):
    c = rec["case"]
    o = ctx.run([c], name="C07_replay", case_timeout_ms=60000)[0]
    print(c["source"], c["limits"])
    r = decide(ctx, c, o)
    print("snap:", (o.get("instantiate") or {}).get("snap"), "x:", (o.get("bindings") or {}).get("x", {}).get("dump"))
    if r is False:
        return ctx.verdicts.finish()
    print("replay: not reproduced")
    return 0
