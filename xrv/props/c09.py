"""C09 Size limit is enforced and memory accounting balances.
Monitors: double-entry conservation (the runtime's byte account vs the hook's shadow ledger of live
objects), balance back to the baseline after everything is dropped (also after a violation), peak vs
limit, recorded size vs payload, monotonicity and result-independence in the limit.  The failure is
placed on every distinct allocation of each program (fault enumeration over allocation points)."""
from .. import batch, core
from ..coregen import Gen

LEVEL = "fault_enumeration"
BIG = 1 << 40

PROGRAMS = [
    "let a = 2 ** 200; let b = a * a; let c = b - a; let d = c.to_str();",
    "let s = 'abc' * 50; let t = s + s; let u = t.upper(); let v = u.substring(10, 60);",
    "let q = range(50).to_array(); let r = q.push(1); let s = r.map((x: int)->{x * 2}).to_array(); let t = s + q;",
    "let k = stack().push(1).push(2).push(3); let l = k.push(4); let m = k.to_array(); let n = l.tail();",
    "let s = set<int>().add(1).add(2).add(300); let t = s.update(range(40)); let u = t.remove(5); let w = u | s;",
    "let m = mapping<str>().set('a', 1).set('bb', 2); let n = m.update([('c', 3), ('d', 4)]); let o = n.discard('a'); let p = o.map_values((v: int)->{v + 1});",
    "fn mk(k: int)->(int)->(int){ (x: int)->{x + k} }\nlet f = mk(3); let g = mk(4); let h = [f, g].map((c: (int)->(int))->{c(1)}).to_array();",
    "struct P(a: int, b: str)\nunion U(i: int, s: str)\nlet p = P(1, 'x' * 30); let q = [p, P(2, 'y')]; let u = U::s('zz' * 20); let t = (p, u, q);",
    "let g = count().to_generator().map((x: int)->{x * x}).take(30); let a = g.to_array(); let b = g.filter((x: int)->{x % 2 == 0}).to_array(); let c = a.to_generator().windows(3).to_array();",
    "let xs = range(60).map((x: int)->{(x * 7919) % 101}).to_array(); let ys = xs.sort(); let zs = xs.n_largest(5); let m = xs.median();",
    "let e = error('some error text' * 3); let f = if_error(e, 5); let g = [1, 2].get(9); let h = is_error(g);",
    "let big = factorial(60); let parts = digits(big); let back = parts.reverse().to_array(); let txt = format(big, 'x');",
    "let j = json([json(1.5), json('abc'), json([json(true)])]); let s = j.serialize(); let k = json_deserialize(s); let eqv = j == k;",
    "let words = 'the quick brown fox jumps over the lazy dog'.split(' ').to_array(); let c = mapping<str>().update_counter(words.to_generator()); let l = words.map(len{str}).to_array();",
    "fn r(n: int)->Sequence<int>{ if(n <= 0, [], r(n - 1).push(n)) }\nlet x = r(25); let y = x.reverse().to_array();",
    "let s = set((x: int)->{x % 4}, (a: int, b: int)->{a == b}).update(range(50).to_array()); let s1 = s.remove(7); let m = mapping((x: int)->{x % 3}, (a: int, b: int)->{a == b}).update(range(40).map((x: int)->{(x, x * x)}).to_array()); let m1 = m.discard(5); let sc = set((x: int)->{0}, (a: int, b: int)->{a == b}).update(range(30).to_array());",
    "let big = 2 ** 8000; let bigs = range(20).map((i: int)->{ 2 ** 4000 + i }).to_array(); let f5 = factorial(500); let ngt = 0 - 3 ** 3000; let prod = big * f5;",
    "let st = range(40).to_array().to_stack(); let st2 = st.push(1).push(2); let sq = (range(20).to_array() + range(30).to_array()); let z = zip(range(25).to_array(), range(25).to_array()).to_array();",
    "let o = some('text' * 10); let p = o.map((s: str)->{s.len()}); let q = none() || 5; let r = [some(1), none(), some(3)];",
]
MAIN_PROGRAMS = [
    ("fn main()->int{ range(30).to_array().push(1).len() }", 3),
    ("fn main()->str{ ('ab' * 40).upper() }", 3),
    ("fn main()->Sequence<int>{ range(20).map((x: int)->{x * x}).to_array() }", 3),
]
OTHER_VIOLATIONS = [
    ("fn r(n: int)->int{ if(n <= 0, 0, 1 + r(n - 1)) }\nlet a = 'x' * 100; let b = r(50);", {"depth": 10}),
    ("fn f(x: int)->int{ x + 1 }\nlet a = range(100).to_array(); let b = a.map(f).to_array();", {"ud_call": 20}),
    ("let a = 'y' * 200; let b = count().nth(0, (x: int)->{x > 500});", {"search": 100}),
    ("fn r(n: int, acc: Sequence<int>)->int{ if(n <= 0, acc.len(), r(n - 1, acc.push(n))) }\nlet b = r(100, []);", {"recursion": 30}),
    ("let a = 'z' * 300; let b = regex('a+');", {}),
    ("let a = [1, 2, 3].map((x: int)->{'s' * x}).to_array(); let b = display(a.len()); let c = display('x');", {"fail_write_after": 1}),
]


def payload_lower_bound(d):
    """bytes that the value at the root of a dump certainly needs (own payload, not the children's)"""
    k = d[0]
    if k == "s":
        return len(d[1].encode("utf8"))
    if k == "i" and d[2] == "L":
        return (abs(int(d[1])).bit_length() + 7) // 8
    if k == "q" and d[3] == "Array":
        return 8 * (d[4] or 0)
    if k == "t":
        return 8 * len(d[1])
    if k == "k":
        return 8 * min(d[3], 1)
    if k in ("e", "m") and not d[2]:
        return 8 * len(d[1])
    return 0


def snaps(o):
    out = {}
    if "instantiate" in o:
        out["inst"] = o["instantiate"].get("snap", {})
    out["after_drop"] = o.get("after_drop", {})
    return out


def run(ctx):
    ctx.canary()
    rng = ctx.rng
    progs = list(PROGRAMS)
    for _ in range(ctx.pick(25, 400)):
        g = Gen(rng, effects=False, errors=rng.random() < 0.4, max_depth=rng.choice([3, 4, 5]))
        progs.append(g.program(rng.randint(3, 10)).src(rng))
    # 1. learn: allocation event list and results with a limit that cannot trip
    learn = [{"id": f"C09-learn{i}", "source": s, "limits": {"size": BIG}, "log_events": 30000, "dump": {"per": 64, "nodes": 3000}} for i, s in enumerate(progs)]
    learn.append({"id": "C09-empty", "source": "", "limits": {"size": BIG}, "log_events": 30000})
    lobs = ctx.run(learn, name="C09_learn")
    base = lobs[-1]
    if batch.program_failure(base) is not None:
        raise core.Broken(f"baseline program failed: {base}")
    baseline_after = base["instantiate"]["snap"].get("acct_bytes", 0)
    baseline_allocs = base["instantiate"]["snap"].get("allocs_ok", 0)
    total = ok = 0
    balance_checks = 0
    max_drift = 0
    alloc_events = points_placed = 0
    sweep = []
    for c, o in zip(learn[:-1], lobs[:-1]):
        total += 1
        fail = batch.program_failure(o)
        if fail is not None:
            if fail["kind"] == "rejected":
                continue
            if fail["kind"] == "inconclusive":
                ctx.verdicts.inconclusive_case(str(fail), c)
                continue
            ctx.verdicts.violation(f"learn|{fail['kind']}" + (":" + core.panic_sig(fail.get("panic")) if fail["kind"] == "panic" else ""), c, {"expected": "runs", "observed": fail})
            continue
        s = snaps(o)
        good = True
        # conservation at the quiescent point after instantiate: account == ledger of live objects
        balance_checks += 1
        if s["inst"].get("acct_bytes", 0) != s["inst"].get("live_bytes", 0):
            good = False
            max_drift = max(max_drift, abs(s["inst"].get("acct_bytes", 0) - s["inst"].get("live_bytes", 0)))
            ctx.verdicts.violation("conservation|account_differs_from_live_objects", c, {"expected": "acct_bytes == sum of recorded sizes of live objects", "observed": s["inst"]})
        # balance: back to the baseline (0) once everything is dropped
        balance_checks += 1
        if s["after_drop"].get("acct_bytes", 0) != 0 or s["after_drop"].get("live_objects", 0) != 0:
            good = False
            max_drift = max(max_drift, s["after_drop"].get("acct_bytes", 0))
            ctx.verdicts.violation("balance|not_back_to_baseline_after_drop", c, {"expected": "0 bytes, 0 live objects", "observed": s["after_drop"]})
        # recorded size >= payload
        for name, b in o.get("bindings", {}).items():
            d, rs = b.get("dump"), b.get("rsize")
            if d and rs is not None and d[0] != "err" and rs < payload_lower_bound(d):
                good = False
                ctx.verdicts.violation(f"recorded_size_below_payload|{d[0]}", c, {"binding": name, "expected": f">= {payload_lower_bound(d)}", "observed": {"rsize": rs, "dump": str(d)[:200]}})
        ok += good
        # allocation points of the user program (after the prelude's)
        evs = [e for e in o.get("events", {}).get("log", []) if e[0] == "alloc"]
        user = evs[baseline_allocs:]
        alloc_events += len(user)
        # failing the k-th allocation: limit just below the running total at that allocation, if no earlier total exceeds it
        cand = sorted({e[2] - 1 for e in user} | {e[2] for e in user} | {baseline_after, baseline_after + 1})
        peak = o["instantiate"]["snap"].get("peak_bytes", 0)
        cand = [L for L in cand if baseline_after <= L <= peak + 8] + [peak + 1000]
        if ctx.quick and len(cand) > 40:
            keep = set(cand[:6] + cand[-6:] + rng.sample(cand, 28))
            cand = [L for L in cand if L in keep]
        for L in cand:
            sweep.append({"id": f"{c['id']}-L{L}", "source": c["source"], "limits": {"size": L}, "dump": c["dump"],
                          "meta": {"L": L, "peak": peak, "unlimited": {n: repr(core.strip_dump(b.get("dump"))) for n, b in o["bindings"].items()}, "learn": c["id"]}})
    points_placed = len(sweep)
    sobs = ctx.run(sweep, name="C09_sweep")
    by_prog = {}
    for c, o in zip(sweep, sobs):
        total += 1
        meta = c["meta"]
        fail = batch.program_failure(o)
        s = snaps(o)
        if fail is not None and fail["kind"] == "inconclusive":
            ctx.verdicts.inconclusive_case(str(fail), c)
            continue
        if fail is not None and fail["kind"] != "violation":
            ctx.verdicts.violation(f"sweep|{fail['kind']}" + (":" + core.panic_sig(fail.get("panic")) if fail["kind"] == "panic" else ""), c, {"expected": "value or AllocationLimitReached", "observed": fail})
            continue
        good = True
        passed = fail is None
        by_prog.setdefault(meta["learn"], []).append((meta["L"], passed))
        if fail is not None and fail["violation"] != "AllocationLimitReached":
            good = False
            ctx.verdicts.violation("sweep|wrong_violation:" + fail["violation"], c, {"expected": "AllocationLimitReached", "observed": fail})
        inst = s.get("inst", {})
        if passed and inst.get("peak_bytes", 0) > meta["L"]:
            good = False
            ctx.verdicts.violation("enforcement|peak_above_limit_without_violation", c, {"expected": f"peak <= {meta['L']}", "observed": inst})
        if passed:
            now = {n: repr(core.strip_dump(b.get("dump"))) for n, b in o["bindings"].items()}     # sets / mappings compared as multisets
            if now != meta["unlimited"]:
                good = False
                ctx.verdicts.violation("transparency|result_depends_on_size_limit", c, {"expected": str(meta["unlimited"])[:300], "observed": str(now)[:300]})
        balance_checks += 1
        ad = s["after_drop"]
        if ad.get("acct_bytes", 0) != 0 or ad.get("live_objects", 0) != 0 or ad.get("acct_bytes", 0) > (1 << 60):
            good = False
            max_drift = max(max_drift, ad.get("acct_bytes", 0))
            ctx.verdicts.violation("balance|not_back_to_baseline_after_" + ("violation" if not passed else "drop"), c,
                                   {"expected": "0 bytes, 0 live objects", "observed": ad})
        ok += good
    # monotonicity: passing at L implies passing at every larger L
    for pid, lst in by_prog.items():
        lst.sort()
        seen_pass = None
        for L, p in lst:
            if p and seen_pass is None:
                seen_pass = L
            if seen_pass is not None and not p:
                ctx.verdicts.violation("monotonicity|passes_at_smaller_limit_fails_at_larger", {"id": pid, "source": next(c["source"] for c in sweep if c["meta"]["learn"] == pid), "limits": {"size": L}},
                                       {"expected": f"passes at {seen_pass} => passes at {L}", "observed": lst[:60]})
                break
    # 2. repeated runs on one runtime, other violation kinds
    extra = []
    for src, n in MAIN_PROGRAMS:
        extra.append({"id": "C09-main", "source": src, "limits": {"size": BIG}, "calls": [{"fn": "main"}] * n, "meta": {"kind": "repeat"}})
    for src, lim in OTHER_VIOLATIONS:
        l = {"size": BIG}
        c = {"id": "C09-other", "source": src, "meta": {"kind": "other_violation"}}
        for k, v in lim.items():
            if k == "fail_write_after":
                c[k] = v
            else:
                l[k] = v
        c["limits"] = l
        extra.append(c)
    eobs = ctx.run(extra, name="C09_extra")
    for c, o in zip(extra, eobs):
        total += 1
        if o.get("timeout") or o.get("died") or o.get("harness_error"):
            ctx.verdicts.inconclusive_case("worker problem", c)
            continue
        ad = o.get("after_drop", {})
        balance_checks += 1
        if c["meta"]["kind"] == "other_violation" and (o.get("instantiate", {}).get("outcome") != "violation"):
            ctx.verdicts.violation("harness|expected_some_violation", c, {"expected": "a violation of the configured kind", "observed": o.get("instantiate")})
            continue
        if ad.get("acct_bytes", 0) != 0 or ad.get("live_objects", 0) != 0:
            max_drift = max(max_drift, ad.get("acct_bytes", 0))
            ctx.verdicts.violation(f"balance|not_back_to_baseline_after_{c['meta']['kind']}:{(o.get('instantiate') or {}).get('violation')}", c, {"expected": "0 bytes, 0 live objects", "observed": ad})
            continue
        if c["meta"]["kind"] == "repeat":
            # the account after each call grows by at most the retained result; identical calls => identical growth
            accts = [call["snap"].get("acct_bytes", 0) for call in o.get("calls", [])]
            steps = [b - a for a, b in zip(accts, accts[1:])]
            if len(set(steps)) > 1:
                ctx.verdicts.violation("balance|repeated_runs_drift", c, {"expected": "same growth per identical call", "observed": accts})
                continue
        ok += 1
    samples = [{"program": sweep[0]["source"][:400], "size_limit": sweep[0]["limits"], "outcome": (sobs[0].get("instantiate") or {}).get("outcome"),
                "after_drop": sobs[0].get("after_drop")},
               {"program": extra[-1]["source"], "limits": extra[-1]["limits"], "after_drop": eobs[-1].get("after_drop")}]
    cov = {"evaluations": total, "distinct_nontrivial": len({(c["source"], c["limits"]["size"]) for c in sweep}),
           "rule": "one evaluation = one execution of a program under one size limit; the limits are chosen from the allocation event list of the unlimited run "
                   "so that the failure lands on each distinct allocation (thorough: all of them; quick: first/last 6 and 28 sampled); distinct = distinct (program, limit)",
           "samples": samples, "agreeing": ok, "programs": len(progs), "allocation_events_seen": alloc_events, "failure_points_placed": points_placed,
           "balance_checks": balance_checks, "max_abs_drift_bytes": max_drift, "baseline_bytes_after_prelude": baseline_after, "exhaustive": not ctx.quick}
    return {"coverage": cov, "broken": None if ok > 50 else "too few agreeing executions",
            "assumptions": ["the baseline is the account before instantiate (0): the standard library's own values are dropped with the evaluation scope",
                            "payload lower bounds: string bytes, big-int bytes, 8 bytes per array/tuple/set/mapping entry",
                            "balance checks are taken after the dump phase, on the worker's drop of results and scope (the dump allocations are dropped with them)"]}


def replay(ctx, rec):
    c = rec["case"]
    if "source" not in c:
        print("replay: monotonicity findings are re-decided by re-running the check")
        return 0
    o = ctx.run([c], name="C09_replay")[0]
    print(c["source"][:500], c.get("limits"))
    print("instantiate:", o.get("instantiate"), "\nafter_drop:", o.get("after_drop"))
    ad = o.get("after_drop", {})
    if ad.get("acct_bytes", 0) != 0 or ad.get("live_objects", 0) != 0:
        print(f"VIOLATION property={ctx.prop} replay=<replayed: account not back at baseline>")
        return 1
    print("replay: account balanced; other aspects are re-decided by re-running the check")
    return 0
