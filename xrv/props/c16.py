"""C16 Generators denote fixed lazy streams.
Oracle: Python generator pipelines (re-creatable iterators), a counting source for laziness."""
import itertools

from .. import batch, core
from ..batch import AnyOf, Err, Gen, NONE, Opt, Skip, Trunc

LEVEL = "exploration"
PER = 40
CAP = 400       # the model looks at most this far into a stream to decide whether it is "finite"


class ModelBudget(Exception):
    """the model would have to search without bound (such pipelines are left to C10)"""


_budget = [0]


def metered(it):
    for x in it:
        _budget[0] -= 1
        if _budget[0] < 0:
            raise ModelBudget()
        yield x


class MGen:
    """model stream: mk() returns a fresh python iterator; finite: whether exhausting it is allowed"""

    def __init__(self, mk, source=False):
        self.mk = (lambda mk=mk: metered(mk())) if source else mk
        _budget[0] = 200000
        pref = list(itertools.islice(self.mk(), CAP + 1))
        self.finite = len(pref) <= CAP
        self.pref = pref

    def items(self):
        return self.pref if self.finite else None

    def expect(self):
        if self.finite and len(self.pref) < PER:
            return Gen(self.pref)
        if self.finite and len(self.pref) == PER:
            # the dump hook cannot tell "exactly PER" from "more than PER" without pulling once more
            return AnyOf(Gen(self.pref), Trunc("g", self.pref))
        return Trunc("g", self.pref[:PER])


def is_err(x):
    return isinstance(x, Err)


def ilit(n):
    return str(n) if n >= 0 else f"({n})"


F_MAP = [("(x: int)->{x * 2 + 1}", lambda x: x * 2 + 1), ("(x: int)->{x - 3}", lambda x: x - 3),
         ("(x: int)->{x % 4}", lambda x: x % 4), ("(x: int)->{7 - x}", lambda x: 7 - x)]
F_PRED = [("(x: int)->{x % 2 == 0}", lambda x: x % 2 == 0), ("(x: int)->{x > 2}", lambda x: x > 2),
          ("(x: int)->{x < 6}", lambda x: x < 6), ("(x: int)->{x % 3 != 1}", lambda x: x % 3 != 1),
          ("(x: int)->{x < 1000}", lambda x: x < 1000)]


def source(rng):
    k = rng.random()
    if k < 0.35:
        xs = [rng.randint(-3, 9) for _ in range(rng.choice([0, 1, 2, 3, 4, 5, 7]))]
        if not xs:
            return "range(0).to_generator()", MGen(lambda: iter(()), True)
        return "[" + ", ".join(map(ilit, xs)) + "].to_generator()", MGen(lambda xs=xs: iter(xs), True)
    if k < 0.5:
        a, b, c = rng.randint(-3, 4), rng.randint(-3, 12), rng.choice([1, 2, 3, -1])
        return f"range({ilit(a)}, {ilit(b)}, {ilit(c)}).to_generator()", MGen(lambda a=a, b=b, c=c: iter(range(a, b, c)), True)
    if k < 0.65:
        return "count().to_generator()", MGen(lambda: itertools.count(), True)
    if k < 0.8:
        a = rng.randint(0, 3)
        return f"successors({a}, (x: int)->{{x * 2 + 1}})", MGen(lambda a=a: succ(a, lambda x: x * 2 + 1), True)
    if k < 0.9:
        a, lim = rng.randint(0, 3), rng.randint(0, 30)
        return (f"successors_until({a}, (x: int)->{{if(x < {lim}, some(x + 3), none())}})",
                MGen(lambda a=a, lim=lim: succ_until(a, lambda x: x + 3 if x < lim else None), True))
    return "count(2, 3).to_generator()", MGen(lambda: itertools.count(2, 3), True)


def succ(a, f):
    while True:
        yield a
        a = f(a)


def succ_until(a, f):
    while a is not None:
        yield a
        a = f(a)


def windows(it, n):
    buf = []
    for x in it:
        buf.append(x)
        if len(buf) == n:
            yield list(buf)
            buf.pop(0)


def chunks(it, n):
    buf = []
    for x in it:
        buf.append(x)
        if len(buf) == n:
            yield buf
            buf = []
    if buf:
        yield buf


def group(it, eq):
    cur = []
    for x in it:
        if cur and not eq(cur[0], x):
            yield cur
            cur = []
        cur.append(x)
    if cur:
        yield cur


def distinct(it):
    seen = set()
    for x in it:
        if x not in seen:
            seen.add(x)
            yield x


def aggregate(it, init, f):
    yield init
    for x in it:
        init = f(init, x)
        yield init


def aggregate1(it, f):
    it = iter(it)
    try:
        acc = next(it)
    except StopIteration:
        return
    yield acc
    for x in it:
        acc = f(acc, x)
        yield acc


def repeat_n(mk, n):
    for _ in range(n):
        yield from mk()


def repeat_inf(mk):
    while True:
        empty = True
        for x in mk():
            empty = False
            yield x
        if empty:
            return


def derive(rng, pool):
    a_name, a = rng.choice(pool)
    op = rng.choice(["map", "filter", "take", "skip", "take_while", "skip_until", "zipmap", "add", "aggregate", "aggregate1",
                     "enumerate", "windows", "chunks", "group", "distinct", "repeat_n", "repeat", "flatten", "product",
                     "take", "skip", "take", "skip", "add"])
    E = is_err(a)
    _budget[0] = 200000
    if op == "map":
        fs, fm = rng.choice(F_MAP)
        src = f"{a_name}.map({fs})"
        return src, (Err() if E else MGen(lambda a=a, fm=fm: map(fm, a.mk()))), op
    if op == "filter":
        ps, pm = rng.choice(F_PRED)
        src = f"{a_name}.filter({ps})"
        if E:
            return src, Err(), op
        if not a.finite:
            # the filtered stream must keep producing within the model's horizon
            if sum(1 for x in itertools.islice(a.mk(), 300) if pm(x)) < 100:
                return None
        return src, MGen(lambda a=a, pm=pm: filter(pm, a.mk())), op
    if op in ("take", "skip"):
        n = rng.choice([0, 1, 2, 3, 5, 8, 20, -1])
        src = f"{a_name}.{op}({ilit(n)})"
        if E or n < 0:
            return src, Err(), op
        if op == "take":
            return src, MGen(lambda a=a, n=n: itertools.islice(a.mk(), n)), op
        return src, MGen(lambda a=a, n=n: itertools.islice(a.mk(), n, None)), op
    if op in ("take_while", "skip_until"):
        ps, pm = rng.choice(F_PRED)
        src = f"{a_name}.{op}({ps})"
        if E:
            return src, Err(), op
        if not a.finite:
            pref = list(itertools.islice(a.mk(), 60))
            hit = any((not pm(x)) if op == "take_while" else pm(x) for x in pref)
            if not hit:
                return None
        if op == "take_while":
            return src, MGen(lambda a=a, pm=pm: itertools.takewhile(pm, a.mk())), op
        return src, MGen(lambda a=a, pm=pm: itertools.dropwhile(lambda x: not pm(x), a.mk())), op
    if op == "zipmap":
        b_name, b = rng.choice(pool)
        src = f"zip({a_name}, {b_name}).map((t: (int, int))->{{t::item0 * 100 + t::item1}})"
        if E or is_err(b):
            return src, Err(), op
        return src, MGen(lambda a=a, b=b: (x * 100 + y for x, y in zip(a.mk(), b.mk()))), op
    if op == "add":
        b_name, b = rng.choice(pool)
        src = rng.choice([f"{a_name} + {b_name}", f"add({a_name}, {b_name})"])
        if E or is_err(b):
            return src, Err(), op
        return src, MGen(lambda a=a, b=b: itertools.chain(a.mk(), b.mk())), op
    if op == "aggregate":
        src = f"{a_name}.aggregate(10, (s: int, x: int)->{{(s * 3 - x) % 1000}})"
        return src, (Err() if E else MGen(lambda a=a: aggregate(a.mk(), 10, lambda s, x: (s * 3 - x) % 1000))), op
    if op == "aggregate1":
        src = f"{a_name}.aggregate((s: int, x: int)->{{(s - x) % 1000}})"
        return src, (Err() if E else MGen(lambda a=a: aggregate1(a.mk(), lambda s, x: (s - x) % 1000))), op
    if op == "enumerate":
        s, o = rng.randint(-2, 3), rng.choice([1, 1, 2, -1])
        args = "" if (s == 0 and o == 1) else (f"{ilit(s)}" if o == 1 else f"{ilit(s)}, {ilit(o)}")
        src = f"{a_name}.enumerate({args}).map((t: (int, int))->{{t::item0 * 1000 + t::item1}})"
        return src, (Err() if E else MGen(lambda a=a, s=s, o=o: ((s + i * o) * 1000 + x for i, x in enumerate(a.mk())))), op
    if op in ("windows", "chunks"):
        n = rng.choice([1, 2, 3, 4])
        src = f"{a_name}.{op}({n}).map((w: Sequence<int>)->{{w.sum() * 10 + w.len()}})"
        fn = windows if op == "windows" else chunks
        return src, (Err() if E else MGen(lambda a=a, n=n, fn=fn: (sum(w) * 10 + len(w) for w in fn(a.mk(), n)))), op
    if op == "group":
        k = rng.choice([2, 3])
        src = f"{a_name}.group((i: int, j: int)->{{i % {k} == j % {k}}}).map((w: Sequence<int>)->{{w.sum() * 10 + w.len()}})"
        if E:
            return src, Err(), op
        if not a.finite:
            pref = list(itertools.islice(a.mk(), 200))
            if len(list(group(pref, lambda i, j: i % k == j % k))) < 60:
                return None
        return src, MGen(lambda a=a, k=k: (sum(w) * 10 + len(w) for w in group(a.mk(), lambda i, j: i % k == j % k))), op
    if op == "distinct":
        src = f"{a_name}.distinct()"
        if E:
            return src, Err(), op
        if not a.finite:
            if len(set(itertools.islice(a.mk(), 300))) < 100:
                return None
        return src, MGen(lambda a=a: distinct(a.mk())), op
    if op == "repeat_n":
        n = rng.choice([0, 1, 2, 3])
        src = f"{a_name}.repeat({n})"
        if E:
            return src, Err(), op
        if not a.finite:
            if n == 0:
                return src, MGen(lambda: iter(())), op
            return src, a, op
        return src, MGen(lambda a=a, n=n: repeat_n(a.mk, n)), op
    if op == "repeat":
        src = f"{a_name}.repeat()"
        if E:
            return src, Err(), op
        if not a.finite:
            return src, a, op
        return src, MGen(lambda a=a: repeat_inf(a.mk)), op
    if op == "flatten":
        b_name, b = rng.choice(pool)
        if E or is_err(b):
            return None
        src = f"[{a_name}, {b_name}, {a_name}].flatten()"
        return src, MGen(lambda a=a, b=b: itertools.chain(a.mk(), b.mk(), a.mk())), op
    if op == "product":
        b_name, b = rng.choice(pool)
        if E or is_err(b):
            return None
        src = f"product({a_name}, {b_name}).map((t: (int, int))->{{t::item0 * 100 + t::item1}})"
        if not b.finite:
            # the second factor never ends: the product is (a0, b0), (a0, b1), ... provided a is not empty
            first = list(itertools.islice(a.mk(), 1))
            if not first:
                return src, MGen(lambda: iter(())), op
            return src, MGen(lambda b=b, f=first[0]: (f * 100 + y for y in b.mk())), op
        if not b.pref:
            if not a.finite:
                return None         # an empty factor next to an infinite one: nothing can ever be yielded
            return src, MGen(lambda: iter(())), op
        return src, MGen(lambda a=a, b=b: (x * 100 + y for x in a.mk() for y in b.pref)), op
    return None


def consume(rng, name, m):
    E = is_err(m)
    op = rng.choice(["to_array", "take_arr", "take_arr", "get", "nth", "last", "len", "reduce", "sum", "first", "any", "all",
                     "contains", "count", "min", "max", "join", "twice"])
    if op == "take_arr":
        k = rng.choice([0, 1, 2, 5, 9])
        src = f"{name}.take({k}).to_array()"
        return src, (Err() if E else list(itertools.islice(m.mk(), k))), op
    if op == "twice":
        k = rng.choice([1, 3, 6])
        src = f"({name}.take({k}).to_array(), {name}.take({k}).to_array(), {name}.skip(1).take({k}).to_array())"
        if E:
            return src, Err(), op
        p = list(itertools.islice(m.mk(), k))
        return src, (p, p, list(itertools.islice(m.mk(), 1, k + 1))), op
    if op == "get":
        i = rng.choice([0, 1, 2, 5, 13, -1])
        src = rng.choice([f"{name}[{ilit(i)}]", f"{name}.get({ilit(i)})"])
        if E or i < 0:
            return src, Err(), op
        got = list(itertools.islice(m.mk(), i, i + 1))
        if not got and not m.finite:
            return None
        return src, (got[0] if got else Err()), op
    if op in ("nth", "first", "any", "all"):
        ps, pm = rng.choice(F_PRED)
        n = rng.choice([0, 1, 2, 4]) if op == "nth" else 0
        if E:
            return f"{name}.first({ps})", Err(), op
        horizon = m.pref if m.finite else list(itertools.islice(m.mk(), 120))
        if op in ("nth", "first"):
            src = f"{name}.nth({n}, {ps})" if op == "nth" else f"{name}.first({ps})"
            hits = [x for x in horizon if pm(x)]
            if n < len(hits):
                return src, Opt(hits[n]), op
            return (src, NONE, op) if m.finite else None
        if op == "any":
            if any(pm(x) for x in horizon):
                return f"{name}.any({ps})", True, op
            return (f"{name}.any({ps})", False, op) if m.finite else None
        if not all(pm(x) for x in horizon):
            return f"{name}.all({ps})", False, op
        return (f"{name}.all({ps})", True, op) if m.finite else None
    if E:
        return f"{name}.len()", Err(), "len"
    if not m.finite:
        return None
    xs = m.pref
    if op == "to_array":
        return f"{name}.to_array()", list(xs), op
    if op == "last":
        return f"{name}.last()", (xs[-1] if xs else Err()), op
    if op == "len":
        return f"{name}.len()", len(xs), op
    if op == "reduce":
        r = 10
        for x in xs:
            r = (r * 3 - x) % 1000
        return f"{name}.reduce(10, (s: int, x: int)->{{(s * 3 - x) % 1000}})", r, op
    if op == "sum":
        return f"{name}.sum()", sum(xs), op
    if op == "contains":
        v = rng.randint(-3, 9)
        return f"{name}.contains({ilit(v)})", v in xs, op
    if op == "count":
        v = rng.randint(-3, 9)
        return f"{name}.count({ilit(v)})", xs.count(v), op
    if op in ("min", "max"):
        return f"{name}.{op}()", ((min if op == "min" else max)(xs) if xs else Err()), op
    if op == "join":
        return f'{name}.map(to_str{{int}}).join("|")', "|".join(map(str, xs)), op
    return None


def gen_history(rng, n_steps):
    pool, steps = [], []
    for _ in range(rng.randint(1, 2)):
        src, m = source(rng)
        name = f"g{len(steps)}"
        steps.append({"name": name, "src": src, "model": m, "op": "source"})
        pool.append((name, m))
    for _ in range(n_steps):
        if rng.random() < 0.6:
            try:
                d = derive(rng, pool)
            except ModelBudget:
                d = None
            if d is None:
                continue
            src, m, op = d
            name = f"g{len(steps)}"
            steps.append({"name": name, "src": src, "model": m, "op": op})
            pool.append((name, m))
        else:
            nm, m = rng.choice(pool)
            try:
                _budget[0] = 200000
                c = consume(rng, nm, m)
            except ModelBudget:
                c = None
            if c is None:
                continue
            src, exp, op = c
            steps.append({"name": f"c{len(steps)}", "src": src, "expect": exp, "op": "use:" + op})
    return steps


def step_expect(s):
    if "expect" in s:
        e = s["expect"]
        if type(e) is list and len(e) >= PER:
            return AnyOf(e, Trunc("q", e[:PER]))      # the dump hook stops after PER elements
        return e
    m = s["model"]
    return m if is_err(m) else m.expect()


# ---- laziness: how many source elements does a bounded consumer pull ----------------------

LAZY_STAGES = [
    ("map", ".map((x: int)->{x + 1})", lambda it: (x + 1 for x in it)),
    ("filter", ".filter((x: int)->{x % 3 != 0})", lambda it: (x for x in it if x % 3 != 0)),
    ("skip", ".skip(2)", lambda it: itertools.islice(it, 2, None)),
    ("take_while", ".take_while((x: int)->{x < 100000})", lambda it: itertools.takewhile(lambda x: x < 100000, it)),
    ("skip_until", ".skip_until((x: int)->{x > 3})", lambda it: itertools.dropwhile(lambda x: not x > 3, it)),
    ("enumerate", ".enumerate().map((t: (int, int))->{t::item0 + t::item1})", lambda it: (i + x for i, x in enumerate(it))),
    ("aggregate", ".aggregate(0, (s: int, x: int)->{s + x})", lambda it: aggregate(it, 0, lambda s, x: s + x)),
    ("windows", ".windows(2).map((w: Sequence<int>)->{w.sum()})", lambda it: (sum(w) for w in windows(it, 2))),
    ("chunks", ".chunks(2).map((w: Sequence<int>)->{w.sum()})", lambda it: (sum(w) for w in chunks(it, 2))),
    ("group", ".group((i: int, j: int)->{i - i % 2 == j - j % 2}).map((w: Sequence<int>)->{w.sum()})",
     lambda it: (sum(w) for w in group(it, lambda i, j: i // 2 == j // 2))),
    ("distinct", ".distinct()", lambda it: distinct(it)),
    ("add_tail", " + [1, 2].to_generator()", lambda it: itertools.chain(it, [1, 2])),
    ("zip_count", ".zip(count().to_generator()).map((t: (int, int))->{t::item0 + t::item1})", lambda it: (x + i for i, x in enumerate(it))),
]


def lazy_cases(ctx):
    rng = ctx.rng
    cases = []
    for n in range(ctx.pick(150, 3000)):
        stages = [rng.choice(LAZY_STAGES) for _ in range(rng.randint(1, 6))]
        k = rng.choice([1, 2, 3, 5, 8])
        pulled = [0]

        def counting():
            for i in range(3000):
                pulled[0] += 1
                yield i
        it = counting()
        for _, _, f in stages:
            it = f(it)
        want = list(itertools.islice(it, k))
        needed = pulled[0]
        if needed >= 2000 or len(want) < k:
            continue        # this pipeline does not produce k elements from a bounded prefix (unbounded search: C10)
        pipe = "count().to_generator().map((x: int)->{display(x)})"
        for _, st, _ in stages:
            pipe = f"({pipe}{st})" if st.startswith(" +") else pipe + st
        src = f"let g = {pipe};\nlet r = g.take({k}).to_array();"
        cases.append({"id": f"C16-lazy{n}", "source": src, "exports": ["r"], "dump": {"per": 64, "nodes": 500},
                      "meta": {"stages": [s for s, _, _ in stages], "k": k, "needed": needed, "want": want}})
    return cases


# ---- callback traces: every callback prints (argument * 100 + tag) when it is called; the printed lines must be those of a maximally
# lazy pipeline, in order: an adaptor that keeps calling its predicate after it has decided, or calls it for an element that is dropped,
# shows as extra lines

def is_subseq(a, b):
    it = iter(b)
    return all(any(x == y for y in it) for x in a)


def _tr(trace, tag, x):
    trace.append(x * 100 + tag)
    return x


TRACE_STAGES = [
    ("map", ".map((x: int)->{{ div_floor(display(x * 100 + {T}), 100) + 1 }})", lambda it, tr, T: (_tr(tr, T, x) + 1 for x in it)),
    ("filter", ".filter((x: int)->{{ div_floor(display(x * 100 + {T}), 100) % 3 != 0 }})", lambda it, tr, T: (x for x in it if _tr(tr, T, x) % 3 != 0)),
    ("take_while", ".take_while((x: int)->{{ div_floor(display(x * 100 + {T}), 100) < 14 }})", lambda it, tr, T: itertools.takewhile(lambda x: _tr(tr, T, x) < 14, it)),
    ("skip_until", ".skip_until((x: int)->{{ div_floor(display(x * 100 + {T}), 100) > 3 }})", lambda it, tr, T: _skip_until(it, lambda x: _tr(tr, T, x) > 3)),
    ("aggregate", ".aggregate(0, (s: int, x: int)->{{ s + div_floor(display(x * 100 + {T}), 100) }})", lambda it, tr, T: aggregate(it, 0, lambda s_, x: s_ + _tr(tr, T, x))),
    ("skip", ".skip(2)", lambda it, tr, T: itertools.islice(it, 2, None)),
    ("take", ".take(9)", lambda it, tr, T: itertools.islice(it, 9)),
]
TRACE_CONSUMERS = [
    ("take_to_array", ".take({K}).to_array().len()", lambda it, tr, T, K: len(list(itertools.islice(it, K)))),
    ("to_array", ".to_array().len()", lambda it, tr, T, K: len(list(it))),
    ("first", ".first((x: int)->{{ div_floor(display(x * 100 + {T}), 100) > {K} }}).has_value().if(1, 0)", lambda it, tr, T, K: 1 if any(_tr(tr, T, x) > K for x in it) else 0),
    ("any", ".any((x: int)->{{ div_floor(display(x * 100 + {T}), 100) > {K} }}).if(1, 0)", lambda it, tr, T, K: 1 if any(_tr(tr, T, x) > K for x in it) else 0),
    ("all", ".all((x: int)->{{ div_floor(display(x * 100 + {T}), 100) < {K} }}).if(1, 0)", lambda it, tr, T, K: 1 if all(_tr(tr, T, x) < K for x in it) else 0),
    ("count", ".count((x: int)->{{ div_floor(display(x * 100 + {T}), 100) > {K} }})", lambda it, tr, T, K: sum(1 for x in it if _tr(tr, T, x) > K)),
    ("nth", ".nth(1, (x: int)->{{ div_floor(display(x * 100 + {T}), 100) > {K} }}).has_value().if(1, 0)", lambda it, tr, T, K: 1 if len(list(itertools.islice((x for x in it if _tr(tr, T, x) > K), 2))) == 2 else 0),
    ("get", ".get({K})", None),
    ("last", ".last()", None),
]


def _skip_until(it, pred):
    found = False
    for x in it:
        if not found and pred(x):
            found = True
        if found:
            yield x


def trace_cases(ctx):
    rng = ctx.rng
    cases = []
    for n in range(ctx.pick(250, 5000)):
        stages = [rng.choice(TRACE_STAGES) for _ in range(rng.randint(1, 4))]
        cname, ctmpl, cfn = rng.choice(TRACE_CONSUMERS)
        K = rng.choice([0, 1, 2, 3, 5, 8])
        tr = []
        it = iter(range(22))
        pipe = "range(22).to_generator()"
        for i, (_, st, f) in enumerate(stages):
            it = f(it, tr, i + 1)
            pipe += st.format(T=i + 1)
        T = len(stages) + 1
        try:
            if cname == "get":
                xs = list(itertools.islice(it, K + 1))
                if len(xs) <= K:
                    continue
                want = xs[K]
            elif cname == "last":
                xs = list(it)
                if not xs:
                    continue
                want = xs[-1]
            else:
                want = cfn(it, tr, T, K)
        except Exception:
            continue
        src = f"let r = {pipe}{ctmpl.format(T=T, K=K)};"
        cases.append({"id": f"C16-trace{n}", "source": src, "exports": ["r"], "dump": {"per": 8, "nodes": 50},
                      "meta": {"stages": [s_ for s_, _, _ in stages], "consumer": cname, "K": K, "want": want, "trace": [str(t) for t in tr]}})
    return cases


def run(ctx):
    ctx.canary()
    rng = ctx.rng
    histories = [gen_history(rng, rng.randint(1, 10)) for _ in range(ctx.pick(600, 18000))]
    results, cases = batch.run_histories(ctx, histories, dump={"per": PER, "nodes": 5000})
    ok = total = 0
    ops, reprs = {}, {}
    distinct_h = set()
    pairs = {}
    for h, outs, case in zip(histories, results, cases):
        distinct_h.add(tuple(s["src"] for s in h))
        prev_op = {}
        for s, out in zip(h, outs):
            total += 1
            ops[s["op"]] = ops.get(s["op"], 0) + 1
            raw = out.get("raw")
            if raw and raw[0] == "g":
                reprs[raw[3]] = reprs.get(raw[3], 0) + 1
            first = s["src"].split(".")[0].split(" ")[0].strip("([")
            if first in prev_op:
                key = prev_op[first] + ">" + s["op"]
                pairs[key] = pairs.get(key, 0) + 1
            prev_op[s["name"]] = s["op"]
            if out["kind"] == "unreached":
                continue
            if out["kind"] == "inconclusive":
                ctx.verdicts.inconclusive_case(str(out.get("detail")), case)
                continue
            exp = step_expect(s)
            if batch.matches(exp, out):
                ok += 1
                continue
            if out["kind"] == "panic":
                rel = "panic:" + core.panic_sig(out.get("panic"))
            elif out["kind"] in ("died", "timeout", "violation", "rejected"):
                rel = out["kind"] + ":" + str(out.get("class") or out.get("violation") or "")
            elif isinstance(exp, Err):
                rel = "value_where_error_expected"
            elif out["kind"] == "error":
                rel = "error_where_value_expected"
            else:
                rel = "differs"
            sig = f"{s['op']}|after:{prev_op.get(first, '')}|{rel}"
            ctx.verdicts.violation(sig, case, {"step": s["src"], "name": s["name"], "expected": repr(exp)[:600],
                                               "observed": {k: out.get(k) for k in ("kind", "raw", "panic", "err", "class", "violation")},
                                               "history": [f"let {x['name']} = {x['src']};" for x in h]})
    # laziness
    lcases = lazy_cases(ctx)
    lobs = ctx.run(lcases, name="C16_lazy")
    lazy_ok, max_excess = 0, 0
    for c, o in zip(lcases, lobs):
        total += 1
        meta = c["meta"]
        fail = batch.program_failure(o)
        if fail is not None:
            if fail["kind"] == "inconclusive":
                ctx.verdicts.inconclusive_case(str(fail), c)
                continue
            rel = fail["kind"] + (":" + core.panic_sig(fail.get("panic")) if fail["kind"] == "panic" else "")
            ctx.verdicts.violation(f"lazy|{'>'.join(meta['stages'][:3])}|{rel}", c, {"expected": meta, "observed": fail, "step": c["source"]})
            continue
        pulls = len([l for l in (o.get("output") or "").split("\n") if l != ""])
        out = batch.binding_outcome(o["bindings"].get("r"))
        slack = 1 + 2 * len(meta["stages"])
        good_val = batch.matches(meta["want"], out)
        excess = pulls - meta["needed"]
        max_excess = max(max_excess, excess)
        if good_val and excess <= slack:
            lazy_ok += 1
            ok += 1
            continue
        what = "value_differs" if not good_val else "pulled_too_many"
        culprit = meta["stages"][0] if len(meta["stages"]) == 1 else ">".join(sorted(set(meta["stages"])))[:60]
        ctx.verdicts.violation(f"lazy|{culprit}|{what}", c, {"step": c["source"], "expected": {"needed": meta["needed"], "slack": slack, "want": meta["want"]},
                                                            "observed": {"pulls": pulls, "raw": out.get("raw"), "kind": out.get("kind")}})
    samples = [{"history": [f"let {x['name']} = {x['src']};" for x in h], "observed": [o.get("raw") for o in outs]}
               for h, outs in list(zip(histories, results))[:2]]
    # ---- callback traces
    tcases = trace_cases(ctx)
    tobs = ctx.run(tcases, name="C16_trace")
    trace_ok = 0
    for c, o in zip(tcases, tobs):
        total += 1
        meta = c["meta"]
        fail = batch.program_failure(o)
        culprit = ">".join(meta["stages"]) + ">" + meta["consumer"]
        if fail is not None:
            if fail["kind"] == "inconclusive":
                ctx.verdicts.inconclusive_case(str(fail)[:200], c)
            else:
                ctx.verdicts.violation(f"trace|{culprit}|{fail['kind']}", c, {"expected": meta, "observed": fail})
            continue
        got = [l for l in (o.get("output") or "").split("\n") if l != ""]
        out = batch.binding_outcome(o["bindings"].get("r"))
        if not batch.matches(meta["want"], out):
            ctx.verdicts.violation(f"trace|{culprit}|value_differs", c, {"step": c["source"], "expected": meta["want"], "observed": out.get("raw")})
            continue
        if got == meta["trace"]:
            trace_ok += 1
            ok += 1
            continue
        what = "extra_callback_evaluations" if got[:len(meta["trace"])] == meta["trace"] or is_subseq(meta["trace"], got) else "callback_order_or_missing_evaluations"
        ctx.verdicts.violation(f"trace|{culprit}|{what}", c, {"step": c["source"], "expected": meta["trace"], "observed": got})
    samples.append({"lazy_case": lcases[0]["source"], "needed": lcases[0]["meta"]["needed"], "output": lobs[0].get("output")})
    cov = {"evaluations": total, "distinct_nontrivial": len(distinct_h) + len({c["source"] for c in lcases}),
           "rule": "one evaluation = one step of a generated generator history (derived generator, dumped = consumed again, or a consumer) "
                   "or one laziness case (source elements pulled, seen as display lines, vs the number a maximally lazy Python pipeline pulls); "
                   "distinct = distinct history / case texts",
           "samples": samples, "agreeing": ok, "histories": len(histories), "laziness_cases": len(lcases), "laziness_ok": lazy_ok, "callback_trace_cases": len(tcases), "callback_traces_ok": trace_ok,
           "max_pull_excess_over_lazy_model": max_excess, "operations": ops, "representations_seen": reprs, "adaptor_pairs": pairs}
    return {"coverage": cov, "broken": None if ok > 0 and total > 100 else "nothing agreed",
            "assumptions": [f"first {PER} elements of a dumped generator are compared; a model stream longer than {CAP} elements is treated as infinite",
                            "with_count's counting convention is not compared (distinct, which depends on it, is)",
                            "look-ahead allowance: 1 + 2 per adaptor", "searches that cannot stop on an infinite stream are not generated (C10)"]}


def replay(ctx, rec):
    case = rec["case"]
    obs = ctx.run([case], name="C16_replay")[0]
    print("source:\n" + case["source"])
    print("expected:", rec["detail"]["expected"])
    fail = batch.program_failure(obs)
    name = rec["detail"].get("name", "r")
    out = fail if fail is not None else batch.binding_outcome(obs.get("bindings", {}).get(name))
    print("observed:", {k: out.get(k) for k in ("kind", "raw", "panic", "err", "violation")}, "output lines:", len((obs.get("output") or "").split("\n")) - 1)
    was = rec["detail"]["observed"]
    if was.get("raw") == out.get("raw") and was.get("kind") == out.get("kind"):
        print(f"VIOLATION property={ctx.prop} replay=<replayed: same observation as recorded>")
        return 1
    print("replay: observation differs from the recorded violation (not reproduced)")
    return 0
