"""C17 Mappings and sets are finite maps under any consistent hash.
Oracle: association list over the equivalence classes of the generated equality; every version
of a history is dumped after all later updates (persistence)."""
from .. import batch, core
from ..batch import AnyOf, Err, NONE, Opt, Skip

LEVEL = "exploration"
PER = 64


def is_err(x):
    return isinstance(x, Err)


def ilit(n):
    return str(n) if n >= 0 else f"({n})"


# (label, hash source, eq source, class function)
def flavours(rng):
    k = rng.choice([2, 3, 4])
    h = rng.choice([1, 2, 3, 5])
    return [
        ("default", None, None, lambda x: x),
        ("injective", "(x: int)->{x + 1000}", "(a: int, b: int)->{a == b}", lambda x: x),
        ("constant", "(x: int)->{7}", "(a: int, b: int)->{a == b}", lambda x: x),
        ("mod_hash", f"(x: int)->{{x % {h}}}", "(a: int, b: int)->{a == b}", lambda x: x),
        ("coarse_eq", f"(x: int)->{{(x % {k}) % {h}}}", f"(a: int, b: int)->{{a % {k} == b % {k}}}", lambda x, k=k: x % k),
        ("coarse_eq_const", "(x: int)->{0}", f"(a: int, b: int)->{{a % {k} == b % {k}}}", lambda x, k=k: x % k),
        ("big_hash", "(x: int)->{18446744073709551615 - (x + 1000)}", "(a: int, b: int)->{a == b}", lambda x: x),
    ]


class MMap:
    """model: list of (class, key, value) in insertion order"""

    def __init__(self, cls, items=None):
        self.cls, self.items = cls, list(items or [])

    def find(self, k):
        c = self.cls(k)
        for i, (cc, _, _) in enumerate(self.items):
            if cc == c:
                return i
        return None

    def copy(self):
        return MMap(self.cls, self.items)

    def set(self, k, v):
        r = self.copy()
        i = r.find(k)
        if i is None:
            r.items.append((self.cls(k), k, v))
        else:
            r.items[i] = (r.items[i][0], r.items[i][1], v)
        return r

    def remove(self, k):
        r = self.copy()
        i = r.find(k)
        if i is not None:
            r.items.pop(i)
        return r

    def norm(self):
        return sorted((c, v) for c, _, v in self.items)


def gen_map_history(rng, n_steps):
    label, hs, es, cls = rng.choice(flavours(rng))
    universe = [rng.randint(-6, 14) for _ in range(rng.randint(6, 12))]
    steps = []
    decls = ""
    K = lambda: rng.choice(universe)
    V = lambda: rng.randint(0, 99)
    # e0 is the never-filled mapping (its value type is still open); m0, the first version with a
    # value type, is what the history works on
    if hs is None:
        steps.append({"name": "e0", "src": "mapping<int>()", "model": MMap(cls), "op": "new_default"})
    else:
        steps.append({"name": "e0", "src": f"mapping({hs}, {es})", "model": MMap(cls), "op": "new"})
    k0, v0 = K(), V()
    first = steps[0]["model"].set(k0, v0)
    steps.append({"name": "m0", "src": f"e0.set({ilit(k0)}, {v0})", "model": first, "op": "set"})
    if rng.random() < 0.5:
        steps.append({"name": "m1", "src": f"m0.discard({ilit(k0)})", "model": first.remove(k0), "op": "discard"})
    pool = [(s["name"], s["model"]) for s in steps[1:]]
    for _ in range(n_steps):
        nm, m = rng.choice(pool[-4:] if rng.random() < 0.7 else pool)
        E = is_err(m)
        if rng.random() < 0.55:
            op = rng.choice(["set", "set", "set", "set_default", "discard", "pop", "update_seq", "update_map",
                             "update_from_keys", "update_counter", "clear", "map_values"])
            name = f"m{len(steps)}"
            if op == "set":
                k, v = K(), V()
                src, mod = f"{nm}.set({ilit(k)}, {v})", (Err() if E else m.set(k, v))
            elif op == "set_default":
                k, v = K(), V()
                src = f"{nm}.set_default({ilit(k)}, {v})"
                mod = Err() if E else (m.copy() if m.find(k) is not None else m.set(k, v))
            elif op == "discard":
                k = K()
                src, mod = f"{nm}.discard({ilit(k)})", (Err() if E else m.remove(k))
            elif op == "pop":
                k = K()
                src = f"{nm}.pop({ilit(k)})"
                mod = Err() if (E or m.find(k) is None) else m.remove(k)
            elif op == "update_seq":
                kv = [(K(), V()) for _ in range(rng.randint(0, 4))]
                arr = "[" + ", ".join(f"({ilit(k)}, {v})" for k, v in kv) + "]" if kv else "[(0, 0)].skip(1)"
                src = f"{nm}.update({arr}" + rng.choice(["", ".to_generator()"]) + ")"
                if E:
                    mod = Err()
                else:
                    mod = m
                    for k, v in kv:
                        mod = mod.set(k, v)
            elif op == "update_map":
                nm2, m2 = rng.choice(pool)
                src = f"{nm}.update({nm2})"
                if E or is_err(m2):
                    mod = Err()
                else:
                    mod = m
                    for _, k, v in m2.items:
                        mod = mod.set(k, v)
            elif op == "update_from_keys":
                ks = [K() for _ in range(rng.randint(0, 5))]
                arr = "[" + ", ".join(map(ilit, ks)) + "]" if ks else "range(0)"
                src = f"{nm}.update_from_keys({arr}" + rng.choice(["", ".to_generator()"]) + ", (k: int)->{100}, (k: int, v: int)->{v + 1})"
                if E:
                    mod = Err()
                else:
                    mod = m
                    for k in ks:
                        i = mod.find(k)
                        mod = mod.set(k, 100 if i is None else mod.items[i][2] + 1)
            elif op == "update_counter":
                ks = [K() for _ in range(rng.randint(0, 5))]
                arr = "[" + ", ".join(map(ilit, ks)) + "]" if ks else "range(0)"
                src = f"{nm}.update_counter({arr}.to_generator())"
                if E:
                    mod = Err()
                else:
                    mod = m
                    for k in ks:
                        i = mod.find(k)
                        mod = mod.set(k, 1 if i is None else mod.items[i][2] + 1)
            elif op == "clear":
                # the value type of a cleared mapping is open again: the cleared version is observed,
                # the history goes on from a version that has a value type again
                src, mod = f"{nm}.clear()", (Err() if E else MMap(cls))
                steps.append({"name": name, "src": src, "model": mod, "op": op})
                k, v = K(), V()
                name2 = f"m{len(steps)}"
                mod2 = Err() if E else mod.set(k, v)
                steps.append({"name": name2, "src": f"{name}.set({ilit(k)}, {v})", "model": mod2, "op": "set"})
                pool.append((name2, mod2))
                continue
            else:
                src = f"{nm}.map_values((v: int)->{{v * 2}})"
                mod = Err() if E else MMap(cls, [(c, k, v * 2) for c, k, v in m.items])
            steps.append({"name": name, "src": src, "model": mod, "op": op})
            pool.append((name, mod))
        else:
            if not E and not m.items and rng.random() < 0.8:
                continue
            op = rng.choice(["get", "get_default", "lookup", "contains", "len", "keys_len", "values_sum", "eq", "counter_mode", "items_sorted", "hash_eq"])
            name = f"c{len(steps)}"
            k = K()
            if op == "hash_eq":
                if E or cls(3) != 3 or cls(-1) != -1:
                    continue            # with a coarse equality the stored representative (which hash sees) is unspecified
                same = [n2 for n2, m2 in pool if n2 != nm and not is_err(m2) and m2.norm() == m.norm()]
                if not same:
                    continue
                nm2 = rng.choice(same)
                steps.append({"name": name, "src": f"(hash({nm}) == hash({nm2}), {nm} == {nm2})", "expect": (True, True), "op": "use:hash_eq"})
                continue
            if op == "get":
                i = None if E else m.find(k)
                src, exp = f"{nm}.get({ilit(k)})", (Err() if (E or i is None) else m.items[i][2])
                if rng.random() < 0.5:
                    src = f"{nm}[{ilit(k)}]"
            elif op == "get_default":
                i = None if E else m.find(k)
                src, exp = f"{nm}.get({ilit(k)}, -1)", (Err() if E else (-1 if i is None else m.items[i][2]))
            elif op == "lookup":
                i = None if E else m.find(k)
                src, exp = f"{nm}.lookup({ilit(k)})", (Err() if E else (NONE if i is None else Opt(m.items[i][2])))
            elif op == "contains":
                src, exp = f"{nm}.contains({ilit(k)})", (Err() if E else m.find(k) is not None)
            elif op == "len":
                src, exp = f"{nm}.len()", (Err() if E else len(m.items))
            elif op == "keys_len":
                src, exp = f"{nm}.keys().len()", (Err() if E else len(m.items))
            elif op == "values_sum":
                if not E and not m.items:
                    continue
                src, exp = f"{nm}.values().sum()", (Err() if E else sum(v for _, _, v in m.items))
            elif op == "eq":
                nm2, m2 = rng.choice(pool)
                if (not E and not m.items) or (not is_err(m2) and not m2.items):
                    continue
                src = f"({nm} == {nm2})"
                exp = Err() if (E or is_err(m2)) else (m.norm() == m2.norm())
            elif op == "counter_mode":
                if E or not m.items:
                    continue
                top = max(v for _, _, v in m.items)
                src = f"{nm}.counter_mode()::item1"
                exp = top
            else:
                if E or not m.items:
                    continue
                src = f"{nm}.to_generator().map((t: (int, int))->{{t::item1}}).to_array().sort()"
                exp = sorted(v for _, _, v in m.items)
            steps.append({"name": name, "src": src, "expect": exp, "op": "use:" + op})
    return {"kind": "map", "label": label, "cls": cls, "steps": steps}


class MSet:
    def __init__(self, cls, items=None):
        self.cls, self.items = cls, list(items or [])      # list of (class, key)

    def has(self, k):
        return any(c == self.cls(k) for c, _ in self.items)

    def add(self, k):
        return self if self.has(k) else MSet(self.cls, self.items + [(self.cls(k), k)])

    def remove(self, k):
        return MSet(self.cls, [(c, x) for c, x in self.items if c != self.cls(k)])

    def classes(self):
        return {c for c, _ in self.items}

    def norm(self):
        return sorted(self.classes())


def gen_set_history(rng, n_steps):
    label, hs, es, cls = rng.choice(flavours(rng))
    universe = [rng.randint(-6, 14) for _ in range(rng.randint(6, 12))]
    steps = [{"name": "s0", "src": "set<int>()" if hs is None else f"set({hs}, {es})", "model": MSet(cls), "op": "new"}]
    pool = [("s0", steps[0]["model"])]
    K = lambda: rng.choice(universe)
    for _ in range(n_steps):
        nm, m = rng.choice(pool[-4:] if rng.random() < 0.7 else pool)
        E = is_err(m)
        if rng.random() < 0.6:
            op = rng.choice(["add", "add", "add", "remove", "discard", "update", "or", "and", "sub", "xor", "clear"])
            name = f"s{len(steps)}"
            if op == "add":
                k = K()
                src, mod = f"{nm}.add({ilit(k)})", (Err() if E else m.add(k))
            elif op == "remove":
                k = K()
                src, mod = f"{nm}.remove({ilit(k)})", (Err() if (E or not m.has(k)) else m.remove(k))
            elif op == "discard":
                k = K()
                src, mod = f"{nm}.discard({ilit(k)})", (Err() if E else m.remove(k))
            elif op == "update":
                ks = [K() for _ in range(rng.randint(0, 5))]
                arr = "[" + ", ".join(map(ilit, ks)) + "]" if ks else "range(0)"
                src = f"{nm}.update({arr}" + rng.choice(["", ".to_generator()"]) + ")"
                if E:
                    mod = Err()
                else:
                    mod = m
                    for k in ks:
                        mod = mod.add(k)
            elif op == "clear":
                src, mod = f"{nm}.clear()", (Err() if E else MSet(cls))
            else:
                nm2, m2 = rng.choice(pool)
                sym = {"or": "|", "and": "&", "sub": "-", "xor": "^"}[op]
                src = f"({nm} {sym} {nm2})"
                if E or is_err(m2):
                    mod = Err()
                else:
                    a, b = m.classes(), m2.classes()
                    keep = {"or": a | b, "and": a & b, "sub": a - b, "xor": a ^ b}[op]
                    mod = MSet(cls, [(c, c) for c in sorted(keep)])
            steps.append({"name": name, "src": src, "model": mod, "op": op})
            pool.append((name, mod))
        else:
            op = rng.choice(["contains", "len", "lt", "le", "eq", "gt", "ge", "disjoint", "arr_len", "gen_len", "hash_eq", "hash_eq"])
            name = f"c{len(steps)}"
            if op == "hash_eq":
                # equal sets reached by different histories must hash equally
                if E:
                    continue
                same = [n2 for n2, m2 in pool if n2 != nm and not is_err(m2) and m2.classes() == m.classes()]
                if not same:
                    continue
                nm2 = rng.choice(same)
                steps.append({"name": name, "src": f"(hash({nm}) == hash({nm2}), {nm} == {nm2})", "expect": (True, True), "op": "use:hash_eq"})
                continue
            if op == "contains":
                k = K()
                src, exp = f"{nm}.contains({ilit(k)})", (Err() if E else m.has(k))
            elif op == "len":
                src, exp = f"{nm}.len()", (Err() if E else len(m.items))
            elif op == "arr_len":
                src, exp = f"{nm}.to_array().len()", (Err() if E else len(m.items))
            elif op == "gen_len":
                src, exp = f"{nm}.to_generator().len()", (Err() if E else len(m.items))
            else:
                nm2, m2 = rng.choice(pool)
                if E or is_err(m2):
                    continue
                a, b = m.classes(), m2.classes()
                if op == "disjoint":
                    src, exp = f"{nm}.is_disjoint({nm2})", not (a & b)
                else:
                    sym = {"lt": "<", "le": "<=", "eq": "==", "gt": ">", "ge": ">="}[op]
                    exp = {"lt": a < b, "le": a <= b, "eq": a == b, "gt": a > b, "ge": a >= b}[op]
                    src = f"({nm} {sym} {nm2})"
            steps.append({"name": name, "src": src, "expect": exp, "op": "use:" + op})
    return {"kind": "set", "label": label, "cls": cls, "steps": steps}


def normalise(out, cls, kind):
    """observed container dump -> comparable model form (keys replaced by their class)"""
    d = out.get("dump")
    if d is None:
        return None
    if d[0] == "m":
        return ("map", sorted((cls(k[1]), v[1]) for k, v in d[1]), d[2])
    if d[0] == "e":
        return ("set", sorted(cls(k[1]) for k in d[1]), d[2])
    return None


def run(ctx):
    ctx.canary()
    rng = ctx.rng
    hs = []
    for _ in range(ctx.pick(500, 15000)):
        n = rng.randint(1, 40)
        hs.append(gen_map_history(rng, n) if rng.random() < 0.55 else gen_set_history(rng, n))
    results, cases = batch.run_histories(ctx, [h["steps"] for h in hs], dump={"per": PER, "nodes": 8000})
    ok = total = versions = 0
    ops, labels, sizes = {}, {}, {}
    distinct = set()
    for h, outs, case in zip(hs, results, cases):
        distinct.add(tuple(s["src"] for s in h["steps"]))
        labels[h["kind"] + ":" + h["label"]] = labels.get(h["kind"] + ":" + h["label"], 0) + 1
        for s, out in zip(h["steps"], outs):
            total += 1
            ops[s["op"]] = ops.get(s["op"], 0) + 1
            if out["kind"] == "unreached":
                continue
            if out["kind"] == "inconclusive":
                ctx.verdicts.inconclusive_case(str(out.get("detail")), case)
                continue
            good = False
            if "expect" in s:
                exp = s["expect"]
                good = batch.matches(exp, out)
            else:
                m = s["model"]
                exp = m
                if is_err(m):
                    good = out["kind"] == "error"
                elif out["kind"] == "value":
                    obs = normalise(out, h["cls"], h["kind"])
                    want = ("map", m.norm(), False) if h["kind"] == "map" else ("set", m.norm(), False)
                    good = obs == want
                    exp = want
                    versions += 1
                    sizes[len(m.items)] = sizes.get(len(m.items), 0) + 1
            if good:
                ok += 1
                continue
            if out["kind"] == "panic":
                rel = "panic:" + core.panic_sig(out.get("panic"))
            elif out["kind"] in ("died", "timeout", "violation", "rejected"):
                rel = out["kind"] + ":" + str(out.get("class") or out.get("violation") or "")
            elif is_err(exp):
                rel = "value_where_error_expected"
            elif out["kind"] == "error":
                rel = "error_where_value_expected"
            else:
                rel = "differs"
            sig = f"{h['kind']}:{s['op']}|{h['label']}|{rel}"
            ctx.verdicts.violation(sig, case, {"step": s["src"], "name": s["name"], "expected": repr(exp)[:500],
                                               "observed": {k: out.get(k) for k in ("kind", "raw", "panic", "err", "class", "violation")},
                                               "history": [f"let {x['name']} = {x['src']};" for x in h["steps"]]})
    samples = [{"history": [f"let {x['name']} = {x['src']};" for x in h["steps"]][:12], "observed": [o.get("raw") for o in outs][:12]}
               for h, outs in list(zip(hs, results))[:2]]
    cov = {"evaluations": total, "distinct_nontrivial": len(distinct),
           "rule": "one evaluation = one step of a history (a new version of a mapping/set, or a lookup on some earlier version); every "
                   "version is dumped after the whole history ran, so persistence is checked for each; distinct = distinct histories",
           "samples": samples, "agreeing": ok, "histories": len(hs), "versions_re_read_after_later_updates": versions,
           "hash_eq_flavours": labels, "operations": ops, "version_size_histogram": sizes}
    return {"coverage": cov, "broken": None if ok > 0 and total > 100 else "nothing agreed",
            "assumptions": ["keys are compared modulo the generated equality (which representative of a class is stored is unspecified)",
                            "iteration order is unspecified: dumps are compared as sorted multisets",
                            "keys int, values int; all sets of one history share one hash/equality pair"]}


def replay(ctx, rec):
    case = rec["case"]
    obs = ctx.run([case], name="C17_replay")[0]
    fail = batch.program_failure(obs)
    name = rec["detail"]["name"]
    out = fail if fail is not None else batch.binding_outcome(obs.get("bindings", {}).get(name))
    print("history:", *rec["detail"]["history"], sep="\n  ")
    print("expected:", rec["detail"]["expected"])
    print("observed:", {k: out.get(k) for k in ("kind", "raw", "panic", "err", "violation")})
    was = rec["detail"]["observed"]

    def canon(o):
        r = o.get("raw")
        return (o.get("kind"), sorted(map(repr, r[1])) if r and r[0] in ("m", "e") else r)
    if canon(was) == canon(out):
        print(f"VIOLATION property={ctx.prop} replay=<replayed: same observation as recorded>")
        return 1
    print("replay: observation differs from the recorded violation (not reproduced)")
    return 0
