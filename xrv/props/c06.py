"""C06 Errors propagate as values; violations cannot be caught.
(A) error probes over the whole standard-library surface (every overload, every argument position,
one and two errors at a time), over user functions / lambdas / callables and over every
construction form: the result must be the leftmost injected error, and no materialised collection
may contain an error.  (B) limit-tripping computations wrapped in every error-handling and
higher-order builtin, with the limit swept so that the trip lands on each call / search step /
allocation: the outcome is that violation or exactly the unlimited result - never anything else."""
from .. import batch, core, surface

LEVEL = "exploration"
BIG = 1 << 40

# documented short-circuit / error-handling functions: (name, positions that may legitimately not propagate)
HANDLERS = {"if": {1, 2}, "and": {1}, "or": {1}, "then": {1}, "if_error": {0, 1, 2}, "is_error": {0, 1}, "get_error": {0}}
# mapping get(m, k, default): the default is documented as short-circuiting
HANDLER_SIGS = {("get", 3): {2}}
SKIP_FUNCS = {"sleep", "now", "random", "sample", "shuffle", "random_choices", "regex", "match", "search", "assert", "__std_sleep", "cast"}

CONSTRUCTS = [
    # (name, template, n args)  {0},{1}.. are int expressions
    ("array_literal", "[{0}, {1}, {2}]", 3), ("tuple", "({0}, {1}, {2})", 3), ("struct", "P3({0}, {1}, {2})", 3), ("variant", "U3::a({0})", 1),
    ("user_fn", "uf3({0}, {1}, {2})", 3), ("user_fn_default", "ufd({0}, {1})", 2), ("lambda", "lam3({0}, {1}, {2})", 3),
    ("callable_param", "apply3(uf3, {0}, {1}, {2})", 3), ("method_sugar", "({0}).uf3({1}, {2})", 3), ("operator", "{0} + {1} * {2}", 3),
    ("index_sugar", "[10, 20, 30][{0}]", 1), ("nested_call", "uf3(uf3({0}, 1, 2), {1}, {2})", 3), ("push", "[1, 2].push({0})", 1),
    ("insert", "[1, 2].insert({0}, {1})", 2), ("seq_set", "[1, 2].set({0}, {1})", 2), ("map_set", "mapping<int>().set({0}, {1})", 2),
    ("set_add", "set<int>().add({0})", 1), ("stack_push", "stack().push({0})", 1), ("some", "some({0})", 1), ("set_update", "set<int>().update([{0}, {1}])", 2),
    ("map_update", "mapping<int>().update([({0}, {1})])", 2), ("set_default", "mapping<int>().set(1, 2).set_default({0}, {1})", 2),
    ("set_default_present", "mapping<int>().set(1, 2).set_default(1, {0})", 1), ("closure_call", "mk3({0})({1})", 2),
    ("generic_struct", "G3({0}, ({1}, {2}))", 3), ("fstring", "f\"a{{{0}}}b{{{1}:03}}\"", 2), ("partial", "partial(uf3, {0})({1}, {2})", 3),
    ("zip", "zip([{0}], [{1}])", 2), ("range", "range({0}, {1}, {2})", 3), ("to_array_of_failing_map", "[1, 2, 3].map((x: int)->{{if(x == 2, {0}, x)}}).to_array()", 1),
    ("sort_of_failing_elements", "[3, 1, 2].map((x: int)->{{if(x == 1, {0}, x)}}).sort()", 1),
    ("set_from_failing_generator", "set<int>().update([1, 2].to_generator().map((x: int)->{{if(x == 2, {0}, x)}}))", 1),
    ("mapping_from_failing_keys", "mapping<int>().update_from_keys([1, 2].map((x: int)->{{if(x == 2, {0}, x)}}), (k: int)->{{1}}, (k: int, v: int)->{{v}})", 1),
    ("stack_from_failing_seq", "[1, 2].map((x: int)->{{if(x == 2, {0}, x)}}).to_stack()", 1),
    ("sum_of_failing", "[1, 2].map((x: int)->{{if(x == 2, {0}, x)}}).sum()", 1),
    ("add_of_failing_seqs", "([1].map((x: int)->{{ {0} }}) + [2]).to_array()", 1),
    # operations on *empty* collections: the shortcut for "nothing to do" must not come before the arguments
    ("discard_on_empty_mapping", "mapping<int>().set(9, 9).discard(9).discard({0})", 1), ("discard_on_fresh_mapping", "mapping<int>().discard({0}).set(1, 2)", 1),
    ("pop_on_empty_mapping", "mapping<int>().set(9, 9).discard(9).pop({0})", 1), ("get_on_empty_mapping", "mapping<int>().set(9, 9).discard(9).get({0})", 1),
    ("lookup_on_empty_mapping", "mapping<int>().set(9, 9).discard(9).lookup({0})", 1), ("contains_on_empty_mapping", "mapping<int>().set(9, 9).discard(9).contains({0})", 1),
    ("discard_on_empty_set", "set<int>().discard({0})", 1), ("remove_on_empty_set", "set<int>().remove({0})", 1), ("contains_on_empty_set", "set<int>().contains({0})", 1),
    ("get_on_empty_seq", "[1].skip(1).get({0})", 1), ("pop_on_empty_seq", "[1].skip(1).pop({0})", 1), ("take_on_empty_seq", "[1].skip(1).take({0})", 1),
    ("skip_on_empty_seq", "[1].skip(1).skip({0})", 1), ("repeat_on_empty_seq", "[1].skip(1).repeat({0})", 1), ("mul_empty_str", "'' * {0}", 1), ("substring_of_empty", "''.substring({0}, {1})", 2),
    ("take_on_empty_gen", "[1].skip(1).to_generator().take({0}).to_array()", 1), ("update_empty_with_empty", "set<int>().update([{0}].skip(1))", 1),
    ("range_empty", "range({0}, {0})", 1), ("insert_on_empty_seq", "[1].skip(1).insert({0}, {1})", 2), ("binom_zero", "binom({0}, 0)", 1), ("pow_zero", "{0} ** 0", 1), ("mul_zero", "0 * {0}", 1),
]
CONSTRUCT_PRELUDE = ("struct P3(a: int, b: int, c: int)\nunion U3(a: int, b: str)\nstruct G3<T>(x: int, y: T)\n"
                     "fn uf3(a: int, b: int, c: int)->int{ display(\"body ran\").len() + a + b + c }\n"
                     "fn ufd(a: int, b: int, c: int ?= 5)->int{ display(\"body ran\").len() + a + b + c }\n"
                     "let lam3 = (a: int, b: int, c: int)->{ display(\"body ran\").len() + a };\n"
                     "fn apply3(f: (int, int, int)->(int), a: int, b: int, c: int)->int{ f(a, b, c) }\n"
                     "fn mk3(k: int)->(int)->(int){ (x: int)->{ display(\"body ran\").len() + x + k } }\n"
                     "fn tl_err(n: int, junk: int)->int{ if(n <= 0, 7, tl_err(n - 1, if(n == 2, error(\"E0\"), 0))) }\n"
                     "fn nt_err(n: int, junk: int)->int{ if(n <= 0, 7, 0 + nt_err(n - 1, if(n == 2, error(\"E0\"), 0))) }\n"
                     "fn tl_dflt(n: int, junk: int ?= 0)->int{ if(n <= 0, 7, if(n == 2, tl_dflt(n - 1, error(\"E0\")), tl_dflt(n - 1))) }\n")

# ---- (B) wrappers around a computation X (type int) ----------------------------------------
WRAPPERS = [
    ("bare", "{X}"), ("if_error", "if_error({X}, 0 - 1)"), ("is_error", "is_error({X}).if(0 - 2, 0 - 3)"), ("get_error", "get_error({X}).has_value().if(1, 0)"),
    ("if_error3", "if_error({X}, 'no such text', 0 - 1)"), ("opt_or", "or(some({X}), 0 - 1)"), ("bool_or", "({X} > 100000 || true).if(1, 0)"),
    ("map_to_array", "[1, 2].map((q: int)->{{ {X} + q }}).to_array().len()"), ("filter", "[1, 2].filter((q: int)->{{ {X} > q }}).to_array().len()"),
    ("reduce", "[1, 2].reduce(0, (a: int, q: int)->{{ a + {X} }})"), ("aggregate", "[1, 2].aggregate(0, (a: int, q: int)->{{ a + {X} }}).to_array().len()"),
    ("sort_cmp", "[2, 1, 3].sort((a: int, b: int)->{{ cmp(a, b) + 0 * {X} }}).len()"), ("group", "[1, 1, 2].to_generator().group((a: int, b: int)->{{ a == b + 0 * {X} }}).to_array().len()"),
    ("windows", "[1, 2, 3].to_generator().map((q: int)->{{ {X} }}).windows(2).to_array().len()"),
    ("product", "product([1, 2].to_generator().map((q: int)->{{ {X} }}), [1].to_generator()).to_array().len()"),
    ("distinct", "[1, 1].to_generator().map((q: int)->{{ {X} }}).distinct().to_array().len()"),
    ("update_from_keys", "mapping<int>().update_from_keys([1, 2], (k: int)->{{ {X} }}, (k: int, v: int)->{{ v }}).len()"),
    ("default_param", "(()->{{ 0 }})() + dflt()"), ("lazy_element", "[1, 2].map((q: int)->{{ {X} + q }})[1]"),
    ("nth_pred", "[1, 2, 3].nth(0, (q: int)->{{ {X} < 0 }}).has_value().if(1, 0)"), ("take_while", "[1, 2].take_while((q: int)->{{ {X} >= 0 }}).len()"),
    ("opt_map", "some(1).map((q: int)->{{ {X} }}).has_value().if(1, 0)"), ("map_or", "some(1).map_or((q: int)->{{ {X} }}, 0)"),
    ("n_largest", "[3, 1, 2].n_largest(2, (a: int, b: int)->{{ cmp(a, b) + 0 * {X} }}).len()"),
    ("set_hash", "set((q: int)->{{ 0 * {X} }}, (a: int, b: int)->{{ a == b }}).add(1).add(2).len()"),
    ("in_struct", "(S1({X}))::v"), ("in_tuple_if_error", "if_error(({X}, 1), (0, 0))::item0"), ("display_arg", "display({X})"),
    ("gen_skip_prefix", "[0, 1, 2, 3, 4, 5].to_generator().map((q: int)->{{ if(q == 2, {X}, q) }}).skip(4).to_array().len()"),
    ("gen_skip_take_prefix", "count().to_generator().map((q: int)->{{ if(q == 1, {X}, q) }}).skip(3).take(2).to_array().len()"),
    ("gen_skip_until", "[0, 1, 2, 3].to_generator().map((q: int)->{{ if(q == 1, {X}, q) }}).skip_until((q: int)->{{ q >= 3 }}).to_array().len()"),
    ("gen_filter_dropped", "[0, 1, 2, 3].to_generator().map((q: int)->{{ if(q == 1, {X}, q) }}).filter((q: int)->{{ q >= 3 }}).to_array().len()"),
    ("gen_last", "[0, 1, 2, 3].to_generator().map((q: int)->{{ if(q == 1, {X}, q) }}).last()"),
    ("gen_nth", "[0, 1, 2, 3].to_generator().map((q: int)->{{ if(q == 1, {X}, q) }}).nth(1, (q: int)->{{ q >= 2 }}).has_value().if(1, 0)"),
    ("gen_len", "[0, 1, 2, 3].to_generator().map((q: int)->{{ if(q == 1, {X}, q) }}).len()"),
    ("gen_distinct_dropped", "[0, 0, 0].to_generator().map((q: int)->{{ 0 * {X} }}).distinct().len()"),
    ("gen_chunks", "[0, 1, 2, 3].to_generator().map((q: int)->{{ if(q == 1, {X}, q) }}).chunks(2).to_array().len()"),
    ("then", "then(true, {X}).has_value().if(1, 0)"), ("successors", "successors(0, (q: int)->{{ q + 1 + 0 * {X} }}).take(3).to_array().len()"),
]
XS = [
    # (name, prelude, expression, limit kind, key, roughly how many steps it needs)
    ("calls", "fn rr(n: int)->int{ if(n <= 0, 0, 1 + rr(n - 1)) }\n", "rr(12)", "MaximumUDCall", "ud_call"),
    ("depth", "fn rr(n: int)->int{ if(n <= 0, 0, 1 + rr(n - 1)) }\n", "rr(12)", "MaximumStackDepth", "depth"),
    ("search", "", "count().nth(0, (z: int)->{z >= 25}).value()", "MaximumSearch", "search"),
    ("recursion", "fn tt(n: int, a: int)->int{ if(n <= 0, a, tt(n - 1, a + 1)) }\n", "tt(20, 0)", "MaximumRecursion", "recursion"),
    ("size", "", "('ab' * 400).len()", "AllocationLimitReached", "size"),
    ("size_pow", "", "(7 ** 3000) % 1000", "AllocationLimitReached", "size"),
    ("size_factorial", "", "factorial(400) % 1000", "AllocationLimitReached", "size"),
    ("size_seq", "", "range(300).to_array().len()", "AllocationLimitReached", "size"),
    ("permission", "", "regex('a').search('a').has_value().if(1, 0)", 'PermissionError("regex")', None),
    ("output", "", "display(5)", "OutputFailure", "fail_write_after"),
]


def nested_error_nodes(raw):
    """errors inside a materialised collection / compound (a lazily mapped sequence may hold failing elements)"""
    bad = []

    def walk(d, lazy):
        if not isinstance(d, list) or not d:
            return
        k = d[0]
        if k == "err" and not lazy:
            bad.append(d[1])
        if k == "t":
            for x in d[1]:
                walk(x, False)
        elif k == "u":
            walk(d[2], False)
        elif k == "q":
            for x in d[1]:
                walk(x, d[3] != "Array")
        elif k == "g":
            for x in d[1]:
                walk(x, True)
        elif k in ("k", "e"):
            for x in d[1]:
                walk(x, False)
        elif k == "o" and d[1] is not None:
            walk(d[1], False)
        elif k == "m":
            for a, b in d[1]:
                walk(a, False)
                walk(b, False)
    if isinstance(raw, list) and raw and raw[0] != "err":
        walk(raw, True) if False else walk_top(raw, walk)
    return bad


def walk_top(raw, walk):
    k = raw[0]
    if k in ("t", "u", "q", "g", "k", "e", "o", "m"):
        walk(raw, True)


def surface_items(ctx):
    rng = ctx.rng
    overloads, dynamic, types, bad = surface.load(ctx)
    pools = surface.Pools([0, 1, 2, 3, 5], [0.5, 1.0, 2.0], ["a", "bc", ""])
    inh = surface.Inhabiter(overloads, rng, pools)
    items = []
    reached = set()
    for o in overloads:
        if o.name.startswith("__") or o.name in SKIP_FUNCS:
            continue
        n = len(o.params)
        if n == 0:
            continue
        combos = [(i,) for i in range(n)]
        if not ctx.quick:
            combos += [(i, j) for i in range(n) for j in range(i + 1, n)]
        elif n >= 2:
            combos.append((0, n - 1))
        for combo in combos * ctx.pick(1, 5):       # thorough: five different fillers per (overload, positions)
            call = None
            for _ in range(4):
                # the error is given the static type of the parameter (if(true, error, <value>)), so that the
                # intended overload is the one resolved; generic parameters are bound by the other arguments
                env = {g: surface.T("prim", rng.choice(["int", "str", "float"])) for g in o.generics}
                over = {}
                for i in combo:
                    filler = inh.gen(o.params[i].subst(env), 1)
                    if filler is None:
                        over = None
                        break
                    over[i] = f'if(true, error("E{i}"), {filler})'
                if over is None:
                    continue
                st = rng.getstate()
                call = inh.call(o, depth=2, env=env, nargs=max(max(combo) + 1, o.min_args), arg_override=over)
                if call is not None:
                    # the same call with the fillers instead of the injected errors (same random choices)
                    st2 = rng.getstate()
                    rng.setstate(st)
                    plain = inh.call(o, depth=2, env=env, nargs=max(max(combo) + 1, o.min_args),
                                     arg_override={i: v[len(f'if(true, error("E{i}"), '):-1] for i, v in over.items()})
                    rng.setstate(st2)
                    break
            if call is None:
                continue
            handled = HANDLERS.get(o.name) or HANDLER_SIGS.get((o.name, len(o.params)))
            if o.params and o.params[0].kind == "native" and o.params[0].name == "Optional":
                # optional.md: map / map_or / and / or are documented as short-circuiting for these arguments
                handled = {"map": {1}, "map_or": {1, 2}, "and": {1}, "or": {1}}.get(o.name, handled)
            # exempt only when every injected position is a documented short-circuit / inspection position
            exempt = handled is not None and all(i in handled for i in combo)
            items.append({"expr": call, "op": f"{o.name}{o.sig}", "fam": "surface", "positions": combo, "expect_msg": f"E{combo[0]}",
                          "handler": exempt, "handler_positions": handled, "plain": plain})
            reached.add((o.name, o.sig))
    return items, len(overloads), len(reached)


def construct_items(ctx):
    items = []
    for name, tmpl, n in CONSTRUCTS:
        combos = [(i,) for i in range(n)] + [(i, j) for i in range(n) for j in range(i + 1, n)]
        for combo in combos:
            args = [f'if(true, error("E{i}"), 0)' if i in combo else str(i + 1) for i in range(n)]
            items.append({"expr": tmpl.format(*args), "op": "construct:" + name, "fam": "construct", "positions": combo, "expect_msg": f"E{combo[0]}",
                          "handler": name == "set_default_present" and False, "handler_positions": None})
    return items


UNTYPED = [("eq_l", 'error("E0") == 1', "E0"), ("eq_r", '1 == error("E1")', "E1"), ("eq_both", 'error("E0") == error("E1")', "E0"),
           ("ne", 'error("E0") != 2', "E0"), ("to_str", 'to_str(error("E0"))', "E0"), ("hash", 'hash(error("E0"))', "E0"),
           ("fstring", 'f"a{error("E0")}b"', "E0"), ("display", 'display(error("E0"))', "E0"), ("array", '[error("E0"), error("E1")]', "E0"),
           ("tuple", '(1, error("E1"), error("E2"))', "E1"), ("some", 'some(error("E0"))', "E0"), ("user_fn", 'uf3(error("E0"), 2, error("E2"))', "E0"),
           ("tail_self_call_error_arg", "tl_err(3, 0)", "E0"), ("nontail_self_call_error_arg", "nt_err(3, 0)", "E0"), ("tail_self_call_error_arg_default", "tl_dflt(4)", "E0"),
           ("tail_self_call_error_arg_in_callback", "[3, 4].map((q: int)->{ tl_err(q, 0) }).to_array()", "E0"),
           ("if_cond", 'if(error("E0"), 1, 2)', "E0"), ("and_first", 'error("E0") && true', "E0"), ("index", '[1, 2][error("E0")]', "E0")]


def run(ctx):
    ctx.canary()
    total = ok = 0
    # ---------------- (A) error propagation
    sitems, n_over, n_reached = surface_items(ctx)
    citems = construct_items(ctx)
    for name, expr, msg in UNTYPED:
        citems.append({"expr": expr, "op": "untyped:" + name, "fam": "construct", "positions": (0,), "expect_msg": msg, "handler": False, "handler_positions": None})
    outs, cases = batch.run_items(ctx, sitems, per_program=15, dump={"per": 24, "nodes": 600}, name="C06_surface")
    couts, ccases = batch.run_items(ctx, citems, prelude=CONSTRUCT_PRELUDE, per_program=1, dump={"per": 24, "nodes": 600}, name="C06_construct")
    probed = set()
    rejected = 0
    suspects = []
    for it, out, case, pre in list(zip(sitems, outs, cases, [""] * len(sitems))) + list(zip(citems, couts, ccases, [CONSTRUCT_PRELUDE] * len(citems))):
        total += 1
        if out["kind"] == "inconclusive":
            ctx.verdicts.inconclusive_case(str(out.get("detail")), case)
            continue
        if out["kind"] == "rejected":
            rejected += 1
            if it["fam"] == "construct":
                ctx.verdicts.violation(f"{it['op']}|rejected", batch.solo_case(ctx, it, prelude=pre), {"expr": it["expr"], "expected": "accepted", "observed": out})
            continue
        probed.add((it["op"], it["positions"]))
        if out["kind"] in ("panic", "died", "timeout", "violation"):
            sig = f"{it['op'][:60]}|pos{it['positions']}|" + (("panic:" + core.panic_sig(out.get("panic"))) if out["kind"] == "panic" else out["kind"])
            ctx.verdicts.violation(sig, batch.solo_case(ctx, it, prelude=pre), {"expr": it["expr"], "expected": "the injected error", "observed": {k: out.get(k) for k in ("kind", "panic", "violation", "detail")}})
            continue
        if out["kind"] == "error":
            msg = out["dump"][1]
            if msg == it["expect_msg"] or it["handler"]:
                ok += 1
                continue
            if msg.startswith("E") and msg[1:].isdigit():
                ctx.verdicts.violation(f"{it['op'][:60]}|pos{it['positions']}|not_the_leftmost_error", batch.solo_case(ctx, it, prelude=pre),
                                       {"expr": it["expr"], "expected": it["expect_msg"], "observed": out["raw"]})
            else:
                # a different error: either one of the generated arguments is itself an error (then that one is the
                # leftmost and the observation is right), or the injected error was replaced
                suspects.append((it, out, pre))
            continue
        # a value came back although an argument was an error
        if it["handler"]:
            ok += 1
            continue
        nested = nested_error_nodes(out.get("raw"))
        why = "collection_contains_error" if nested else "error_argument_dropped"
        ctx.verdicts.violation(f"{it['op'][:60]}|pos{it['positions']}|{why}", batch.solo_case(ctx, it, prelude=pre),
                               {"expr": it["expr"], "expected": "error " + it["expect_msg"], "observed": out.get("raw")})
    if suspects:
        plain_items = [{"expr": it.get("plain") or "0", "op": it["op"]} for it, _, _ in suspects]
        pouts, _ = batch.run_items(ctx, plain_items, per_program=1, dump={"per": 8, "nodes": 100}, name="C06_plain")
        for (it, out, pre), pout in zip(suspects, pouts):
            if it.get("plain") and pout["kind"] == "error" and pout["dump"][1] == out["dump"][1]:
                ok += 1         # the same error without any injection: it comes from a generated argument / the call itself
                continue
            ctx.verdicts.violation(f"{it['op'][:60]}|pos{it['positions']}|other_error_instead_of_the_injected_one", batch.solo_case(ctx, it, prelude=pre),
                                   {"expr": it["expr"], "expected": it["expect_msg"], "observed": out["raw"], "without_injection": pout.get("raw")})
    # the body of a user function must not have run: "body ran" never appears in the output of construct cases
    # (checked through the outcome: a value would have been reported above)
    # ---------------- (B) violations cannot be caught
    vcases = []
    for xname, pre, X, vkind, key in XS:
        for wname, wt in WRAPPERS:
            body = wt.replace("{X}", X).replace("{{", "{").replace("}}", "}")
            src = pre + "struct S1(v: int)\n" + f"fn dflt(a: int ?= 7)->int{{ a }}\n" + f"let r = {body};\n"
            if wname == "default_param":
                src = pre + "struct S1(v: int)\n" + f"fn dflt(a: int ?= {X})->int{{ a }}\nlet r = dflt();\n"
            vcases.append({"id": f"C06-v-{xname}-{wname}", "source": src, "exports": ["r"], "dump": {"per": 16, "nodes": 200},
                           "limits": {"ud_call": BIG, "depth": BIG, "search": BIG, "recursion": BIG, "size": BIG}, "log_events": 0,
                           "meta": {"x": xname, "wrapper": wname, "viol": vkind, "key": key, "stage": "learn"}})
    lobs = ctx.run(vcases, name="C06_learn")
    sweep = []
    for c, o in zip(vcases, lobs):
        meta = c["meta"]
        total += 1
        fail = batch.program_failure(o)
        if meta["x"] == "permission":
            # no sweep: the permission is simply off
            if fail is None or fail.get("kind") != "violation" or fail.get("violation") != meta["viol"]:
                ctx.verdicts.violation(f"violation_caught|permission|{meta['wrapper']}", c, {"expected": meta["viol"], "observed": fail or o.get("bindings")})
            else:
                ok += 1
            continue
        if fail is not None:
            if fail["kind"] == "inconclusive":
                ctx.verdicts.inconclusive_case(str(fail), c)
            else:
                ctx.verdicts.violation(f"wrapper|{meta['wrapper']}|{meta['x']}|{fail['kind']}", c, {"expected": "runs without limits", "observed": fail})
            continue
        ok += 1
        snap = o["instantiate"]["snap"]
        unlimited = repr(core.strip_dump(o["bindings"]["r"].get("dump")))
        need = {"ud_call": snap.get("ud_calls", 0), "depth": snap.get("max_height", 0), "search": 40, "recursion": snap.get("max_tail_run", 0),
                "size": snap.get("peak_bytes", 0), "fail_write_after": snap.get("writes", 0)}[meta["key"]]
        if meta["key"] == "size":
            base = 37000
            Ls = sorted(set([need - d for d in (1, 8, 32, 100, 400, 800, 1500)] + [need, need + 1000] + ([need - 7 * i for i in range(1, 60)] if not ctx.quick else [])))
            Ls = [L for L in Ls if L > base]
        elif meta["key"] == "fail_write_after":
            Ls = list(range(0, need + 1))
        else:
            Ls = list(range(1, need + 3))
            if ctx.quick and len(Ls) > 10:
                Ls = sorted(set(Ls[:4] + Ls[-5:] + ctx.rng.sample(Ls, 3)))
        for L in Ls:
            s = dict(c)
            s["id"] = c["id"] + f"-L{L}"
            if meta["key"] == "fail_write_after":
                s["fail_write_after"] = L
                s["limits"] = {}
            else:
                s["limits"] = {meta["key"]: L}
            s["meta"] = dict(meta, stage="sweep", L=L, unlimited=unlimited, need=need)
            sweep.append(s)
    sobs = ctx.run(sweep, name="C06_sweep")
    trips = 0
    trip_sites = set()
    for c, o in zip(sweep, sobs):
        total += 1
        meta = c["meta"]
        fail = batch.program_failure(o)
        if fail is not None and fail["kind"] == "inconclusive":
            ctx.verdicts.inconclusive_case(str(fail), c)
            continue
        if fail is not None and fail["kind"] == "violation":
            if fail["violation"] == meta["viol"]:
                ok += 1
                trips += 1
                trip_sites.add((meta["x"], meta["wrapper"]))
            else:
                ctx.verdicts.violation(f"violation_converted|{meta['x']}|{meta['wrapper']}|{fail['violation']}", c, {"expected": meta["viol"], "observed": fail})
            continue
        if fail is not None:
            ctx.verdicts.violation(f"wrapper|{meta['wrapper']}|{meta['x']}|{fail['kind']}" + (":" + core.panic_sig(fail.get("panic")) if fail["kind"] == "panic" else ""), c,
                                   {"expected": "violation or the unlimited result", "observed": fail})
            continue
        now = repr(core.strip_dump(o["bindings"]["r"].get("dump")))
        if now == meta["unlimited"]:
            ok += 1
        else:
            # the evaluation ended with a value that is not the unlimited one: a tripped limit was observed / suppressed by the program
            ctx.verdicts.violation(f"violation_caught|{meta['x']}|{meta['wrapper']}", c, {"expected": f"{meta['viol']} or {meta['unlimited']}", "observed": now})
    samples = [{"expr": sitems[0]["expr"], "expected_error": sitems[0]["expect_msg"], "observed": outs[0].get("raw")},
               {"construct": citems[3]["expr"], "observed": couts[3].get("raw")},
               {"wrapped": sweep[5]["source"][-200:], "limits": sweep[5]["limits"], "outcome": (sobs[5].get("instantiate") or {}).get("violation") or "value"}]
    cov = {"evaluations": total, "distinct_nontrivial": len(probed) + len({(c["source"], str(c.get("limits")), c.get("fail_write_after")) for c in sweep}),
           "rule": "one evaluation = one call/construction with error arguments at chosen positions, or one wrapped limit-tripping computation under one limit value; "
                   "distinct = distinct (overload or construct, positions) and distinct (wrapper, computation, limit value)",
           "samples": samples, "agreeing": ok, "overloads_in_table": n_over, "overloads_probed": n_reached, "overload_positions_probed": len(probed),
           "generated_calls_rejected_by_compiler": rejected, "constructs": len(CONSTRUCTS), "wrappers": len(WRAPPERS), "limit_kinds": len(XS),
           "trip_points_placed": len(sweep), "trips_observed": trips, "distinct_trip_sites": len(trip_sites)}
    return {"coverage": cov, "broken": None if ok > 200 and trips > 20 else "too few error probes or trips observed",
            "assumptions": ["documented handlers (if, and, or, then, if_error, is_error, get_error, map_or default) are exempt at their short-circuit positions",
                            "a lazily mapped sequence may hold failing elements; a materialised array / tuple / struct / set / mapping / stack / optional may not",
                            "violations: no model - the outcome under a limit is either that violation or exactly the unlimited result"]}


def replay(ctx, rec):
    c = rec["case"]
    o = ctx.run([c], name="C06_replay")[0]
    print(c["source"][-600:], c.get("limits"))
    fail = batch.program_failure(o)
    print("expected:", rec["detail"].get("expected"), "\nobserved:", fail or {n: b.get("dump") for n, b in (o.get("bindings") or {}).items()})
    was = rec["detail"].get("observed")
    now = fail or None
    b = (o.get("bindings") or {})
    name = "r0" if "r0" in b else "r"
    cur = b.get(name, {}).get("dump")
    if (isinstance(was, list) and cur == was) or (isinstance(was, str) and cur is not None and repr(core.strip_dump(cur)) == was) or (isinstance(was, dict) and fail and fail.get("kind") == was.get("kind")):
        print(f"VIOLATION property={ctx.prop} replay=<replayed: same observation>")
        return 1
    print("replay: not reproduced")
    return 0
