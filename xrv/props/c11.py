"""C11 Side effects happen only with permission.
Monitors: recording doubles for the writer / clock / random source (every touch counted), the
permission-check event log of the hooks, wall time for sleep.  Model-free apart from the permission
table of the book (regex and sleep off by default, the others on)."""
import itertools

from .. import batch, core

LEVEL = "exploration"
PERMS = ["print", "print_debug", "now", "random", "regex", "sleep"]
DEFAULT = {"print": True, "print_debug": True, "now": True, "random": True, "regex": False, "sleep": False}

# (name, permission, expression (type int-ish wrapped by caller), double that must be touched when allowed)
ENTRIES = [
    ("display", "print", "display(7)", "writes"),
    ("display_prefix", "print", "display(7, 'p: ')", "writes"),
    ("debug", "print_debug", "debug(7)", "writes"),
    ("now", "now", "now()::hours", "clock_reads"),
    ("random_float", "random", "floor(random() * 10.0)", "rng_draws"),
    ("sample", "random", "[1, 2, 3, 4].sample(2).len()", "rng_draws"),
    ("sample_pick_path", "random", "range(1000).sample(2).len()", "rng_draws"),
    ("sample_pool_path_long", "random", "range(40).to_array().sample(30).len()", "rng_draws"),
    ("shuffle_long", "random", "range(300).to_array().shuffle().len()", "rng_draws"),
    ("random_choices_many", "random", "[1, 2, 3].random_choices(300).len()", "rng_draws"),
    ("sample_counts", "random", "[1, 2, 3].sample(2, [1, 2, 3]).len()", "rng_draws"),
    ("shuffle", "random", "[1, 2, 3, 4].shuffle().len()", "rng_draws"),
    ("random_choices", "random", "[1, 2, 3].random_choices(4).len()", "rng_draws"),
    ("random_choices_w", "random", "[1, 2, 3].random_choices(4, [1.0, 2.0, 3.0]).len()", "rng_draws"),
    ("contdist_sample", "random", "normal_distribution(0.0, 1.0).sample(3).len()", "rng_draws"),
    ("contdist_random", "random", "floor(normal_distribution(0.0, 1.0).random())", "rng_draws"),
    ("discdist_sample", "random", "uniform_distribution(1, 6).sample(3).len()", "rng_draws"),
    ("discdist_random", "random", "uniform_distribution(1, 6).random()", "rng_draws"),
    ("regex", "regex", "regex('a+b').search('xaab').has_value().if(1, 0)", None),
    ("sleep", "sleep", "sleep(seconds(0.0), 5)", None),
    ("sleep_unit", "sleep", "[sleep(seconds(0.0))].len()", None),
]
# reach paths: {E} is the effectful expression (int-typed)
PATHS = [
    ("direct", "let r = {E};"),
    ("wrapper_fn", "fn w()->int{{ {E} }}\nlet r = w();"),
    ("closure", "fn mk(k: int)->()->(int){{ ()->{{ {E} + k }} }}\nlet c = mk(1);\nlet r = c();"),
    ("map_callback", "let r = [1, 2].map((x: int)->{{ {E} + x }}).to_array().len();"),
    ("filter_callback", "let r = [1, 2].filter((x: int)->{{ {E} >= 0 - 1000000 }}).to_array().len();"),
    ("reduce_callback", "let r = [1, 2].reduce(0, (a: int, x: int)->{{ a + {E} }});"),
    ("lazy_element", "let s = [1, 2].map((x: int)->{{ {E} + x }});\nlet r = s[1];"),
    ("default_param", "fn f(a: int ?= {E})->int{{ a }}\nlet r = 1;"),
    ("partial", "fn g(a: int, b: int)->int{{ {E} + a + b }}\nlet h = partial(g, 1);\nlet r = h(2);"),
    ("struct_field", "struct H(f: ()->(int))\nlet h = H(()->{{ {E} }});\nlet f = h::f;\nlet r = f();"),
    ("sort_comparator", "let r = [2, 1].sort((a: int, b: int)->{{ cmp(a, b) + 0 * {E} }}).len();"),
    ("generator_pipeline", "let r = [1, 2].to_generator().map((x: int)->{{ {E} }}).to_array().len();"),
    ("if_branch", "let r = if(1 < 2, {E}, 0);"),
    ("exported_fn", "fn main()->int{{ {E} }}"),
]


def assignments(ctx):
    """all 64 allow/forbid assignments (explicit for every permission), plus the defaults"""
    out = [dict(zip(PERMS, bits)) for bits in itertools.product([True, False], repeat=6)]
    return out


def make_cases(ctx):
    rng = ctx.rng
    cases = []
    allA = assignments(ctx)
    for ename, perm, expr, touch in ENTRIES:
        for pname, tmpl in PATHS:
            src = tmpl.format(E=expr)
            if pname == "direct":
                As = allA + [None]
            else:
                As = ([None] + rng.sample(allA, ctx.pick(6, 30)))
                # always include one assignment that forbids and one that allows exactly this permission
                As.append({p: (p != perm) for p in PERMS})
                As.append({p: (p == perm) for p in PERMS})
            for A in As:
                allowed = DEFAULT[perm] if A is None else A[perm]
                c = {"id": f"C11-{ename}-{pname}", "source": src, "exports": ["r"] if "let r" in src else [], "dump": {"per": 8, "nodes": 50},
                     "log_events": 200, "rng_seed": 7, "clock": 1700000000.0,
                     "meta": {"entry": ename, "perm": perm, "path": pname, "assignment": A, "allowed": allowed, "touch": touch}}
                if A is not None:
                    c["perms"] = A
                if pname == "exported_fn":
                    c["calls"] = [{"fn": "main"}]
                cases.append(c)
    return cases


def touches(o):
    """total touches of the three doubles over the whole observation (including the dump phase)"""
    s = o.get("after_drop") or o.get("after_dump") or (o.get("instantiate") or {}).get("snap") or {}
    return {k: s.get(k, 0) for k in ("writes", "clock_reads", "rng_draws", "rng_created")}


def decide(ctx, c, o):
    meta = c["meta"]
    if o.get("timeout") or o.get("died") or o.get("harness_error"):
        if o.get("confirmed"):
            ctx.verdicts.violation(f"{meta['entry']}|{meta['path']}|{'timeout' if o.get('timeout') else 'died'}", c, {"expected": meta, "observed": str(o)[:300]})
            return False
        ctx.verdicts.inconclusive_case("worker problem", c)
        return None
    comp = o.get("compile", {})
    if not comp.get("ok"):
        ctx.verdicts.violation(f"{meta['entry']}|{meta['path']}|rejected_or_compile_panic", c, {"expected": "accepted", "observed": comp})
        return False
    # the outcome that matters: instantiate, or the call of main
    stage = o.get("instantiate", {})
    if meta["path"] == "exported_fn" and stage.get("outcome") == "ok":
        stage = (o.get("calls") or [{}])[0]
    t = touches(o)
    evs = [e for e in (o.get("events") or {}).get("log", []) if e[0] == "perm"]
    perm = meta["perm"]
    if stage.get("outcome") == "panic":
        ctx.verdicts.violation(f"{meta['entry']}|{meta['path']}|panic:" + core.panic_sig(stage.get("panic")), c, {"expected": meta, "observed": stage})
        return False
    if not meta["allowed"]:
        want = f"PermissionError(\"{perm}\")"
        if stage.get("outcome") != "violation" or stage.get("violation") != want:
            ctx.verdicts.violation(f"{meta['entry']}|{meta['path']}|effect_not_refused", c, {"expected": want, "observed": {"stage": stage, "touches": t}})
            return False
        bad = {k: v for k, v in t.items() if v}
        if bad:
            ctx.verdicts.violation(f"{meta['entry']}|{meta['path']}|double_touched_without_permission", c, {"expected": "no touch of writer/clock/rng", "observed": bad})
            return False
        if not any(e[1] == perm and e[2] is False for e in evs):
            ctx.verdicts.violation(f"{meta['entry']}|{meta['path']}|refusal_without_permission_check_event", c, {"expected": "a denied check event", "observed": evs})
            return False
        return True
    # allowed
    if stage.get("outcome") != "ok":
        ctx.verdicts.violation(f"{meta['entry']}|{meta['path']}|refused_although_allowed", c, {"expected": "ok", "observed": stage})
        return False
    if meta["touch"] and not t.get(meta["touch"]):
        ctx.verdicts.violation(f"{meta['entry']}|{meta['path']}|effect_did_not_reach_the_injected_double", c, {"expected": meta["touch"] + " > 0", "observed": t})
        return False
    # an effect must be preceded by a granted check of its permission
    if not any(e[1] == perm and e[2] is True for e in evs):
        ctx.verdicts.violation(f"{meta['entry']}|{meta['path']}|effect_without_permission_check", c, {"expected": "a granted check event for " + perm, "observed": {"events": evs, "touches": t}})
        return False
    # nothing else was touched
    other = {"print": "writes", "print_debug": "writes", "now": "clock_reads", "random": "rng_draws"}
    mine = other.get(perm)
    extra = {k: v for k, v in t.items() if v and k not in (mine, "rng_created" if perm == "random" else None)}
    if extra:
        ctx.verdicts.violation(f"{meta['entry']}|{meta['path']}|unrelated_double_touched", c, {"expected": "only " + str(mine), "observed": t})
        return False
    return True


def run(ctx):
    ctx.canary()
    cases = make_cases(ctx)
    obs = ctx.run(cases, name="C11")
    ok = decided = 0
    triples = set()
    touched = {"writes": 0, "clock_reads": 0, "rng_draws": 0}
    for c, o in zip(cases, obs):
        r = decide(ctx, c, o)
        if r is None:
            continue
        decided += 1
        ok += bool(r)
        m = c["meta"]
        triples.add((str(m["assignment"]), m["entry"], m["path"]))
        t = touches(o) if isinstance(o, dict) and "compile" in o else {}
        for k in touched:
            touched[k] += t.get(k, 0)
    # a fake double touch must be noticed by the decision procedure (monitor canary)
    fake = {"compile": {"ok": True}, "instantiate": {"outcome": "violation", "violation": 'PermissionError("print")'}, "after_drop": {"writes": 1}, "events": {"log": [["perm", "print", False]]}}
    probe = core.Verdicts(ctx.prop, ctx.tier, ctx.seed)
    real, ctx.verdicts = ctx.verdicts, probe
    decide(ctx, {"id": "canary", "meta": {"entry": "display", "perm": "print", "path": "direct", "assignment": None, "allowed": False, "touch": "writes"}}, fake)
    ctx.verdicts = real
    if not probe.new:
        raise core.Broken("double-touch canary was not noticed")
    samples = [{"source": c["source"], "perms": c.get("perms"), "stage": (o.get("instantiate") or {}).get("outcome"),
                "violation": (o.get("instantiate") or {}).get("violation"), "touches": touches(o)} for c, o in list(zip(cases, obs))[:3]]
    cov = {"evaluations": len(cases), "distinct_nontrivial": len(triples),
           "rule": "one evaluation = one program reaching one effectful entry point by one path under one permission assignment; distinct = distinct "
                   "(assignment, entry, path); the 64 explicit assignments and the defaults are exhaustive for the direct path, sampled (always including "
                   "'only this one forbidden' and 'only this one allowed') for the others",
           "samples": samples, "agreeing": ok, "decided": decided, "entries": len(ENTRIES), "paths": len(PATHS), "double_touches_observed": touched,
           "direct_block_exhaustive": True}
    return {"coverage": cov, "broken": None if ok > 100 else "too few", "assumptions": [
        "regex compilation and sleeping have no injectable double: they are observed through the outcome and the permission-check event",
        "sleep is called with 0 seconds"]}


def replay(ctx, rec):
    c = rec["case"]
    o = ctx.run([c], name="C11_replay")[0]
    print(c["source"], c.get("perms"))
    print("instantiate:", o.get("instantiate"), "touches:", touches(o))
    r = decide(ctx, c, o)
    if r is False:
        return ctx.verdicts.finish()
    print("replay: not reproduced")
    return 0
