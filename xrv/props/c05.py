"""C05 Overload resolution is ranked, unambiguous and stable.
Observed event: which body ran (every user overload returns its own tag) or the class of the
compile error.  Oracles: (1) a reference ranker written from lang/shadowing.md (non-generic before
generic before dynamic; several matches in the deciding bucket = AmbiguousOverload; none =
NoOverload) over the user overloads plus the library's overloads of that name read from the tree's
own signature table; (2) three metamorphic relations that need no reference: the outcome is the
same under every permutation of the declarations, under alpha-renaming of generic parameters and
parameter names, after adding overloads that cannot match, and when overloads move between the top
level and the enclosing function."""
import itertools

from .. import batch, core, surface
from ..surface import T

LEVEL = "exploration"

PRELUDE = "struct S0(a: int)\nstruct Z9(z: int)\nstruct Pair<A, B>(a: A, b: B)\n"
# concrete argument types: (source of the type, a term of it)
ARGS = {
    "int": "1", "str": "'a'", "bool": "true", "float": "1.5", "S0": "S0(1)", "Sequence<int>": "[1, 2]", "Sequence<str>": "['a']", "Optional<int>": "some(1)",
    "(int, str)": "(1, 'a')", "Sequence<Sequence<int>>": "[[1]]", "(int, str, float)": "(1, 'a', 2.5)", "(int)": "(1,)", "(int, int)": "(1, 2)",
    "Pair<int, str>": "Pair(1, 'a')", "Pair<str, int>": "Pair('a', 1)", "Pair<int, int>": "Pair(1, 2)",
}       # fully known types only (the property's quantifier): with a bottom-typed argument the implementation deliberately prefers generic candidates


def P(text, generics=()):
    p = surface._P(text, set(generics))
    return p.type()


def unify(pat, con, env):
    """match the parameter type `pat` (may mention generics) against the concrete argument type `con` (may contain the bottom type);
    env: generic name -> concrete type.  True / False"""
    if con.kind == "unknown":
        if pat.kind == "generic":
            env.setdefault(pat.name, con)
        return True
    if pat.kind == "generic":
        old = env.get(pat.name)
        if old is None or old.kind == "unknown":
            env[pat.name] = con
            return True
        j = join(old, con)
        if j is None:
            return False
        env[pat.name] = j
        return True
    if pat.kind == "unknown":
        return True
    if pat.kind != con.kind:
        return False
    if pat.kind in ("prim", "named", "native") and pat.name != con.name:
        return False
    if pat.kind == "callable":
        return False            # no callable arguments in this workload
    if len(pat.args) != len(con.args):
        return False
    return all(unify(a, b, env) for a, b in zip(pat.args, con.args))


def join(a, b):
    if a.kind == "unknown":
        return b
    if b.kind == "unknown":
        return a
    if a.kind != b.kind or a.name != b.name or len(a.args) != len(b.args):
        return None
    parts = [join(x, y) for x, y in zip(a.args, b.args)]
    if None in parts:
        return None
    return T(a.kind, a.name, parts)


class Ov:
    """a user overload: params [(type text, optional?)], generics, tag"""

    def __init__(self, params, generics, tag, level="top"):
        self.params, self.generics, self.tag, self.level = params, tuple(generics), tag, level

    def decl(self, name, rename=False, inner_call=None):
        """inner_call: text of a call placed (never executed) inside the body: it is resolved with the overloads visible *inside* this body"""
        text = self._decl(name, rename)
        if inner_call is not None:
            text = text[:text.rindex("{")] + "{ if(true, " + str(self.tag) + ", " + inner_call + ") }"
        return text

    def _decl(self, name, rename=False):
        gens = list(self.generics)
        names = [f"p{i}" for i in range(len(self.params))]
        if rename:
            m = {g: f"Q{i}x" for i, g in enumerate(gens)}
            gens = [m[g] for g in gens]
            names = [f"arg_{i}_" for i in range(len(self.params))]
        ps = []
        for n, (t, opt) in zip(names, self.params):
            tt = t
            if rename:
                for g in self.generics:
                    tt = _sub_word(tt, g, f"Q{self.generics.index(g)}x")
            ps.append(f"{n}: {tt}" + (f" ?= {default_for(t)}" if opt else ""))
        g = ("<" + ", ".join(gens) + ">") if gens else ""
        return f"fn {name}{g}({', '.join(ps)})->int{{ {self.tag} }}"

    def matches(self, arg_types):
        req = sum(1 for _, o in self.params if not o)
        if not (req <= len(arg_types) <= len(self.params)):
            return False
        env = {}
        return all(unify(P(t, self.generics), a, env) for (t, _), a in zip(self.params, arg_types))


def _sub_word(text, w, rep):
    import re
    return re.sub(rf"\b{w}\b", rep, text)


def default_for(t):
    if t in ("Sequence<T>", "Sequence<Sequence<T>>", "Sequence<U>"):
        return "[]"
    if t in ("Optional<T>", "Optional<U>"):
        return "none()"
    return {"int": "0", "str": "'d'", "bool": "false", "float": "0.5", "S0": "S0(0)", "Sequence<int>": "[0]", "Sequence<str>": "['d']", "Optional<int>": "none()", "(int, str)": "(0, 'd')",
            "Sequence<Sequence<int>>": "[]", "(int, str, float)": "(0, 'd', 0.5)", "(int, int)": "(0, 0)", "Pair<int, str>": "Pair(0, 'd')", "Pair<str, int>": "Pair('d', 0)"}[t]


CONCRETE = ["int", "str", "bool", "float", "S0", "Sequence<int>", "Sequence<str>", "Optional<int>", "(int, str)", "(int, str, float)", "(int, int)", "Pair<int, str>", "Pair<str, int>"]
GENERIC = ["T", "Sequence<T>", "Optional<T>", "(T, U)", "(T, T)", "Sequence<Sequence<T>>", "U", "Pair<T, U>", "Pair<T, T>", "Pair<T, int>", "(T, U, T)"]


def rand_overload(rng, tag, arity_hint):
    n = max(0, arity_hint + rng.choice([0, 0, 0, 1, -1]))
    if rng.random() < 0.35 and n > 0:
        # generic
        params, gens = [], set()
        for i in range(n):
            if rng.random() < 0.6:
                t = rng.choice(GENERIC)
                for g in ("T", "U"):
                    if _has_word(t, g):
                        gens.add(g)
                params.append((t, False))
            else:
                params.append((rng.choice(CONCRETE), False))
        if not gens:
            params[0] = ("T", False)
            gens.add("T")
        # trailing parameters may be optional when a default can be written for their type
        for i in range(n - 1, -1, -1):
            if (params[i][0] in CONCRETE or params[i][0] in ("Sequence<T>", "Optional<T>", "Sequence<Sequence<T>>")) and rng.random() < 0.35:
                params[i] = (params[i][0], True)
            else:
                break
        return Ov(params, sorted(gens), tag)
    params = [(rng.choice(CONCRETE), False) for _ in range(n)]
    for i in range(n - 1, -1, -1):
        if rng.random() < 0.3:
            params[i] = (params[i][0], True)
        else:
            break
    return Ov(params, (), tag)


def _has_word(text, w):
    import re
    return re.search(rf"\b{w}\b", text) is not None


def never_matching(rng, tag):
    """an overload that no call of this workload can match (a parameter of a type no argument has)"""
    n = rng.randint(1, 3)
    params = [(rng.choice(CONCRETE), False) for _ in range(n)]
    params[rng.randrange(n)] = ("Z9", False)
    return Ov(params, (), tag)


def reference(user, lib, dynamic, arg_types):
    """-> ('tag', n) | ('lib',) | ('err', class) | ('unspecified',)"""
    exact = [o for o in user if not o.generics and o.matches(arg_types)]
    lib_exact = [o for o in lib if not o.generics and lib_matches(o, arg_types)]
    if len(exact) + len(lib_exact) > 1:
        return ("err", "AmbiguousOverload")
    if exact:
        return ("tag", exact[0].tag)
    if lib_exact:
        return ("lib",)
    gen = [o for o in user if o.generics and o.matches(arg_types)]
    lib_gen = [o for o in lib if o.generics and lib_matches(o, arg_types)]
    if len(gen) + len(lib_gen) > 1:
        return ("err", "AmbiguousOverload")
    if gen:
        return ("tag", gen[0].tag)
    if lib_gen:
        return ("lib",)
    if dynamic:
        return ("unspecified",)
    return ("err", "NoOverload")


def lib_matches(o, arg_types):
    if not (o.min_args <= len(arg_types) <= len(o.params)):
        return False
    env = {}
    return all(unify(p, a, env) for p, a in zip(o.params, arg_types))


def program(name, ovs, call_args, order, inner_mask, rename=False, body_only=None):
    """body_only = index of the overload (declared last, inside the host function) whose body holds the only call"""
    top, inner = [], []
    call = f"{name}(" + ", ".join(ARGS[a] for a in call_args) + ")"
    if body_only is not None:
        for i in order:
            if i != body_only:
                (inner if inner_mask[i] else top).append(ovs[i].decl(name, rename))
        inner.append(ovs[body_only].decl(name, rename, inner_call=call))
        return PRELUDE + "\n".join(top) + "\nfn host_()->int{\n    " + "\n    ".join(inner) + "\n    0\n}\nlet r = host_();\n"
    for i in order:
        (inner if inner_mask[i] else top).append(ovs[i].decl(name, rename))
    body = PRELUDE + "\n".join(top) + "\n"
    if inner:
        body += "fn host_()->int{\n    " + "\n    ".join(inner) + "\n    " + call + "\n}\nlet r = host_();\n"
    else:
        body += f"let r = {call};\n"
    return body


def make_cases(ctx):
    rng = ctx.rng
    overloads, dynamic, types, bad = surface.load(ctx)
    lib_by_name = {}
    for o in overloads:
        lib_by_name.setdefault(o.name, []).append(o)
    reserved = set(lib_by_name) | set(dynamic)
    cases = []
    groups = []
    n_sets = ctx.pick(450, 3000)
    for s in range(n_sets):
        libname = rng.random() < 0.25
        name = rng.choice(["add", "len", "to_str", "eq", "max", "mul", "get", "contains", "neg"]) if libname else rng.choice(["ov", "pick", "f", "go_", "Resolve", "item7x"])
        if not libname and name in reserved:
            name = "ov"
        arity = rng.choice([1, 1, 2, 2, 3])
        k = rng.randint(1, 6)
        ovs = [rand_overload(rng, 7001 + i, arity) for i in range(k)]
        # a few sets get an exact duplicate or a near-duplicate that differs only in an optional parameter
        if rng.random() < 0.2 and ovs:
            src = rng.choice(ovs)
            dup = Ov(list(src.params) + ([(rng.choice(CONCRETE), True)] if rng.random() < 0.6 else []), src.generics, 7001 + len(ovs))
            ovs.append(dup)
        twice = (not libname) and rng.random() < 0.15
        if twice:
            # one type parameter at two argument positions (directly or nested), next to a two-parameter sibling: the candidate only matches
            # when both arguments agree, component for component and in length
            shape = rng.choice([("T", "T"), ("Sequence<T>", "T"), ("(T, U)", "T"), ("Pair<T, U>", "Pair<U, T>"), ("Optional<T>", "T")])
            gens = sorted({g for t in shape for g in ("T", "U") if _has_word(t, g)})
            ovs = [Ov([(t, False) for t in shape], gens, 7001)]
            if rng.random() < 0.6:
                ovs.append(Ov([("A", False), ("B", False)], ("A", "B"), 7002))
            if rng.random() < 0.4:
                ovs.append(rand_overload(rng, 7003, 2))
        lib = lib_by_name.get(name, []) if libname else []
        dyn = (name in dynamic) if libname else False
        # call sites
        calls = []
        for _ in range(rng.randint(2, 4)):
            if rng.random() < 0.7 and ovs:
                o = rng.choice(ovs)
                m = rng.randint(sum(1 for _, op in o.params if not op), len(o.params))
                args = []
                for t, _ in o.params[:m]:
                    if t in CONCRETE:
                        args.append(t if rng.random() < 0.85 else rng.choice(list(ARGS)))
                    else:
                        args.append(rng.choice(["int", "str", "Sequence<int>", "Optional<int>", "(int, str)", "Sequence<Sequence<int>>", "(int, str, float)", "(int, int)", "Pair<int, str>", "Pair<str, int>", "Pair<int, int>"]))
            else:
                args = [rng.choice(list(ARGS)) for _ in range(rng.choice([arity, arity, max(0, arity - 1), arity + 1, 0]))]
            calls.append(args)
        if twice:
            fam = ["(int)", "(int, int)", "(int, str)", "(int, str, float)", "Pair<int, str>", "Pair<str, int>", "Pair<int, int>", "int", "Sequence<int>", "Sequence<Sequence<int>>", "Optional<int>"]
            calls = [[rng.choice(fam), rng.choice(fam)] for _ in range(4)]
        if any(all(op for _, op in o.params) for o in ovs):
            calls.append([])            # a zero-argument call whenever some overload can take it
        for args in calls:
            arg_types = [P(a) for a in args]
            ref = reference(ovs, lib, dyn, arg_types)
            k = len(ovs)
            perms = list(itertools.permutations(range(k))) if k <= 4 else [tuple(rng.sample(range(k), k)) for _ in range(24)]
            if ctx.tier == "quick" and len(perms) > 6:
                perms = [tuple(range(k))] + rng.sample(perms, 5)
            base_mask = [False] * k
            variants = [("order", p, base_mask, False, ovs) for p in perms]
            variants.append(("alpha_renamed", tuple(range(k)), base_mask, True, ovs))
            mask = [rng.random() < 0.5 for _ in range(k)]
            variants.append(("scope_levels", tuple(range(k)), mask, False, ovs))
            variants.append(("scope_levels_permuted", perms[-1], [not x for x in mask], False, ovs))
            extra = ovs + [never_matching(rng, 7901 + j) for j in range(rng.randint(1, 3))]
            order = list(range(len(extra)))
            rng.shuffle(order)
            variants.append(("non_matching_added", tuple(order), [False] * len(extra), False, extra))
            gid = len(groups)
            groups.append({"name": name, "set": [o.decl(name) for o in ovs], "args": args, "reference": ref, "lib": bool(lib), "dyn": dyn, "members": [], "body_members": []})
            for kind, order, msk, ren, oo in variants:
                cases.append({"id": f"C05-{gid}-{kind}-{len(cases)}", "source": program(name, oo, args, order, msk, ren), "exports": ["r"], "dump": {"per": 4, "nodes": 20},
                              "meta": {"group": gid, "variant": kind}})
                groups[gid]["members"].append(len(cases) - 1)
            # the same call written only inside the body of one of the overloads (declared last, in the enclosing function): it is resolved among
            # the overloads visible in that body, itself included; not executed, so only accepted / error class is observed
            if not libname and ovs:
                for _ in range(2):
                    j = rng.randrange(len(ovs))
                    msk = [rng.random() < 0.4 for _ in ovs]
                    cases.append({"id": f"C05-{gid}-in_body-{len(cases)}", "source": program(name, ovs, args, tuple(range(len(ovs))), msk, False, body_only=j), "exports": ["r"],
                                  "dump": {"per": 4, "nodes": 20}, "meta": {"group": gid, "variant": "call_inside_an_overload_body"}})
                    groups[gid]["body_members"].append(len(cases) - 1)
    return cases, groups


def outcome(o):
    fail = batch.program_failure(o)
    if fail is not None:
        if fail["kind"] == "rejected":
            if fail.get("class") == "FunctionOutputTypeMismatch" and "host_" in str(fail.get("err")):
                return ("lib",)         # every user overload returns int: the enclosing function's output can only mismatch when a library overload was selected
            return ("err", fail.get("class"))
        return (fail["kind"], core.panic_sig(fail.get("panic")) if fail["kind"] == "panic" else str(fail.get("violation")))
    b = batch.binding_outcome((o.get("bindings") or {}).get("r"))
    if b["kind"] == "value" and b["dump"][0] == "i" and 7000 < b["dump"][1] < 8000:
        return ("tag", b["dump"][1])
    if b["kind"] in ("value", "error"):
        return ("lib",)
    return (b["kind"],)


def run(ctx):
    ctx.canary()
    cases, groups = make_cases(ctx)
    obs = ctx.run(cases, name="C05")
    outs = [outcome(o) for o in obs]
    agree = decided = stable = 0
    classes, buckets = {}, {}
    for g in groups:
        res = [(cases[i]["meta"]["variant"], outs[i], i) for i in g["members"]]
        if any(r[1][0] == "inconclusive" for r in res):
            ctx.verdicts.inconclusive_case("worker problem", cases[g["members"][0]])
            continue
        base = res[0][1]
        classes[base[0] + (":" + str(base[1]) if base[0] == "err" else "")] = classes.get(base[0] + (":" + str(base[1]) if base[0] == "err" else ""), 0) + 1
        # (1) the reference
        ref = g["reference"]
        buckets[ref[0]] = buckets.get(ref[0], 0) + 1
        if base[0] in ("panic", "died", "timeout", "violation"):
            ctx.verdicts.violation(f"call|{base[0]}:{base[1]}", cases[res[0][2]], {"overloads": g["set"], "arguments": g["args"], "expected": ref, "observed": base})
            continue
        if ref[0] != "unspecified":
            decided += 1
            if tuple(ref) == tuple(base):
                agree += 1
            else:
                kind = f"{ref[0]}{':' + str(ref[1]) if ref[0] == 'err' else ''}_expected_but_{base[0]}{':' + str(base[1]) if base[0] == 'err' else ''}"
                ctx.verdicts.violation(f"ranking|{'library_name' if g['lib'] or g['dyn'] else 'fresh_name'}|{kind}", cases[res[0][2]],
                                       {"overloads": g["set"], "arguments": g["args"], "expected": ref, "observed": base})
        # (1b) the call resolved inside an overload's body: accepted exactly when the reference selects something, else the same error class
        for i in g.get("body_members", []):
            ob = outs[i]
            if ref[0] == "unspecified" or ob[0] == "inconclusive":
                continue
            want_b = ("err", ref[1]) if ref[0] == "err" else ("accepted",)
            got_b = ob if ob[0] == "err" else ("accepted",) if ob[0] in ("lib", "tag") else ob
            if tuple(want_b) != tuple(got_b):
                ctx.verdicts.violation(f"ranking|inside_overload_body|{want_b[0]}{':' + str(want_b[1]) if len(want_b) > 1 else ''}_expected_but_{got_b[0]}{':' + str(got_b[1]) if len(got_b) > 1 else ''}",
                                       cases[i], {"overloads": g["set"], "arguments": g["args"], "expected": want_b, "observed": ob})
        # (2) metamorphic: every variant has the outcome of the first
        diff = [(v, o2) for v, o2, _ in res[1:] if o2 != base]
        if diff:
            v, o2 = diff[0]
            idx = next(i for vv, oo, i in res if vv == v and oo == o2)
            ctx.verdicts.violation(f"stability|{v.split('_permuted')[0]}|outcome_changes", cases[idx], {"overloads": g["set"], "arguments": g["args"], "expected": base, "observed": o2, "variant": v})
        else:
            stable += 1
    # ranker canary
    o = Ov([("int", False)], (), 7001)
    if reference([o, Ov([("T", False)], ("T",), 7002)], [], False, [P("int")]) != ("tag", 7001) or reference([o, o], [], False, [P("int")]) != ("err", "AmbiguousOverload"):
        raise core.Broken("reference ranker self-test failed")
    samples = [{"program": cases[0]["source"], "reference": groups[0]["reference"]}, {"program": cases[groups[0]["members"][-1]]["source"]}]
    cov = {"evaluations": len(cases), "distinct_nontrivial": len({c["source"] for c in cases}),
           "rule": "one evaluation = one program (a set of overloads in one arrangement + one call); a group = one (set, call) with all its arrangements; distinct = distinct texts",
           "samples": samples, "groups": len(groups), "groups_decided_by_the_reference": decided, "agreeing_with_reference": agree, "groups_stable_under_all_variants": stable,
           "reference_verdict_kinds": buckets, "observed_outcome_kinds": classes, "variants_per_group": "all permutations (sets <= 4; 24 random above; 6 in the quick tier) + alpha renaming + 2 scope arrangements + non-matching overloads added"}
    return {"coverage": cov, "broken": None if agree > 100 and stable > 100 else "too few groups decided",
            "assumptions": ["arguments are terms of fully known type (no bottoms: with a bottom-typed argument the implementation prefers generic candidates by design)", "calls that only a dynamic library function could match are UNSPECIFIED for the reference (still checked for stability)",
                            "overloads visible at a call site form one set whatever scope they were declared in (an inner declaration does not take precedence): ties are ambiguity errors"]}


def replay(ctx, rec):
    c = rec["case"]
    o = ctx.run([c], name="C05_replay")[0]
    print(c["source"])
    got = outcome(o)
    print("expected:", rec["detail"].get("expected"), "observed then:", rec["detail"].get("observed"), "observed now:", got)
    if list(got) == list(rec["detail"].get("observed") or []):
        print(f"VIOLATION property={ctx.prop} replay=<replayed>")
        return 1
    print("replay: not reproduced")
    return 0
