"""C01 Accepted programs never go wrong (type soundness).
Monitors (model-free): panic hook + catch_unwind around instantiate / run_function / forcing of every
exported value, process-death attribution, and the shape walker (value vs. the static type the
compiler assigned to the binding / the declared return type).  Acceptance is observed, never
predicted: rejected programs are counted and dropped."""
import re

from .. import batch, core, surface
from ..coregen import Gen
from . import c12

LEVEL = "exploration"

NASTY_INTS = [0, 1, -1, 2, 3, 7, 100, -100, 1 << 31, 1 << 63, -(1 << 63), 1 << 64, 10 ** 30]
NASTY_FLOATS = [0.0, -0.0, 1.0, -1.0, 0.5, 2.5, 1e-300, 1e300, -1e300, 5e-324, 1.7976931348623157e308]
NASTY_STRS = ["", "a", "abc", " ", "é", "😀", "a,b", "%d", "{}", "0", "-1", "1e5", "\n"]

# near-miss programs aimed at the corner rules: each must be rejected, or accepted and run without going wrong
NEAR_MISS = [
    "let f = (a: int, b: int)->{a + b};\nlet r = f(1);",
    "let f = (a: int, b: int)->{a + b};\nlet r = f(1, 2, 3);",
    "let f = (a: int)->{a + 1};\nlet r = f('x');",
    "let f = (a: int)->{a + 1};\nlet r = f();",
    "fn ap(f: (int, int)->(int))->int{ f(1) }\nlet r = ap((a: int, b: int)->{a + b});",
    "fn ap(f: (int, int)->(int))->int{ f(1, 2, 3) }\nlet r = ap((a: int, b: int)->{a + b});",
    "fn ap(f: (int)->(int))->int{ f('s') }\nlet r = ap((a: int)->{a});",
    "fn ap(f: (int)->(int))->int{ f(1) }\nlet r = ap((a: int, b: int)->{a + b});",
    "fn ap(f: (int, int)->(int))->int{ f(1, 2) }\nlet r = ap((a: int)->{a});",
    "fn ap(f: (int)->(str))->str{ f(1) }\nlet r = ap((a: int)->{a});",
    "fn ap(f: ()->(int))->int{ f() }\nlet r = ap((a: int ?= 3)->{a});",
    "fn g(a: int, b: int)->int{a + b}\nlet r = g(1);",
    "fn g(a: int, b: int ?= 2)->int{a + b}\nlet r = g();",
    "fn g(a: int, b: int ?= 'two')->int{a + b}\nlet r = g(1);",
    "fn g(a: int ?= 1.5)->int{a}\nlet r = g();",
    "fn g(a: Sequence<int> ?= ['a'])->int{a[0]}\nlet r = g();",
    "fn g(a: int ?= [])->int{a}\nlet r = g();",
    "fn g(a: int ?= none())->int{a}\nlet r = g();",
    "let f = (a: int ?= 'x')->{a + 1};\nlet r = f();",
    "fn g<T>(a: T, b: T)->T{a}\nlet r = g(1, 'a');",
    "fn g<T>(a: T, b: Sequence<T>)->T{b[0]}\nlet r = g('a', [1]);",
    "struct P<A, B>(a: A, b: B)\nlet xs = [P(1, 'a'), P('b', 2)];\nlet r = xs[1]::a;",
    "struct P<A, B>(a: A, b: B)\nlet xs = if(true, P(1, 'a'), P('b', 2));\nlet r = xs::a + 1;",
    "struct P<A, B>(a: A, b: B)\nfn f(p: P<int, str>)->int{p::a + 1}\nlet r = f(P('x', 1));",
    "struct P<A, B>(a: A, b: B)\nlet p: P<int, str> = P('x', 1);\nlet r = p::a + 1;",
    "struct P<A, B, C>(a: A, b: B, c: C)\nlet xs = [P(1, 'a', 2.0), P(1, 2.0, 'a')];\nlet r = xs[1]::b.len();",
    "union U<A, B>(a: A, b: B)\nlet xs = [U::a(1), U::b('s')];\nlet r = xs[1]!:b;",
    "union U<A, B>(a: A, b: B)\nlet u: U<int, str> = U::a('s');\nlet r = u!:a + 1;",
    "union U<A, B>(a: A, b: B)\nlet xs = if(true, U::a(1), U::a('s'));\nlet r = xs!:a + 1;",
    "struct N(next: Optional<N>, v: int)\nlet n = N(some(N(none(), 1)), 2);\nlet r = n::next.value()::v;",
    "struct N(next: Optional<N>, v: int)\nlet n = N(some(5), 2);\nlet r = n::next.value()::v;",
    "let xs = [[], [1], ['a']];\nlet r = xs[2][0];",
    "let xs = [none(), some(1), some('a')];\nlet r = xs[2].value();",
    "let xs = [error('e'), 1, 'a'];\nlet r = xs[1];",
    "let t = (1, 'a');\nlet r = t::item2;",
    "let t = (1, 'a');\nlet r = t::item1 + 1;",
    "let x: int = 'a';", "let x: Sequence<int> = ['a'];", "let x: Optional<int> = some('a');", "let x: (int, str) = ('a', 1);",
    "let x: Sequence<int> = [];\nlet r = x.push('a');", "let x = [].push(1).push('a');", "let x = none() || 'a';\nlet r = x + 1;",
    "let m = mapping<int>().set(1, 'a').set(2, 3);", "let m = mapping<int>().set('k', 1);", "let s = set<int>().add('a');",
    "let f = if(true, (a: int)->{a}, (a: str)->{a});\nlet r = f(1);",
    "let f = if(true, (a: int)->{a}, (a: int, b: int)->{a});\nlet r = f(1);",
    "let fs = [(a: int)->{a}, (a: int, b: int)->{a + b}];\nlet r = fs[1](1);",
    "fn mk()->(int)->(int){ (a: int, b: int)->{a + b} }\nlet r = mk()(1);",
    "fn mk()->(int, int)->(int){ (a: int)->{a} }\nlet r = mk()(1, 2);",
    "struct H(f: (int)->(int))\nlet h = H((a: int, b: int)->{a + b});\nlet r = (h::f)(1);",
    "struct H(f: (int)->(int))\nlet h = H((a: str)->{1});\nlet r = (h::f)(1);",
    "let g = partial((a: int, b: int)->{a + b}, 'x');\nlet r = g(1);",
    "let g = partial((a: int, b: int)->{a + b}, 1, 2, 3);\nlet r = g();",
    "let r = cast<int>('a') + 1;", "let r = cast<Sequence<int>>([]).push('a');", "let r = cast<str>(error('e')).len();",
    "let r = add{int, int}(1, 'a');", "let r = add{int, str}(1, 'a');", "let f = add{int, int};\nlet r = f(1.5, 2);", "let r = map{$, $}([1], (x: str)->{x});",
    "let r = [1, 2].map((x: str)->{x});", "let r = [1, 2].filter((x: int)->{x});", "let r = [1, 2].reduce('a', (a: int, b: int)->{a + b});",
    "let r = [1, 2].sort((a: int, b: int)->{a < b});", "let r = [1, 2].nth(0, (a: int)->{a});", "let r = [(1, 'a')].unzip()::item0[0] + 'x';",
    "let r = zip([1], ['a']).map((t: (int, int))->{t::item1 + 1}).to_array();",
    "fn f(x: int)->str{x}", "fn f(x: int)->int{error('e')}\nlet r = f(1) + 1;", "fn f(x: int)->Sequence<int>{[]}\nlet r = f(1).push(2);",
    "fn f<T>(x: T)->Sequence<T>{[x, 1]}\nlet r = f('a');", "fn f<T>(x: T)->T{1}\nlet r = f('a').len();", "fn f<T>(x: T)->int{x + 1}\nlet r = f('a');",
    "forward fn g(x: int)->int;\nfn f(x: int)->int{g(x)}\nlet r = f(1);\nfn g(x: int)->int{x}",
    "forward fn g(x: int)->int;\nfn f(x: int)->int{g(x)}\nfn g(x: int)->str{'s'}\nlet r = f(1);",
    "fn outer()->()->(int){ forward fn b()->int; fn a()->int{ b() } fn b()->int{ 5 } a }\nlet r = outer()();",
    "fn outer()->()->(bool){ forward fn odd(n: int)->bool; fn even(n: int)->bool{ if(n == 0, true, odd(n - 1)) } fn odd(n: int)->bool{ if(n == 0, false, even(n - 1)) } ()->{ even(4) } }\nlet r = outer()();",
    "forward fn foo(i: int)->int;\nfn getter()->(int)->(int){ foo }\nlet g = getter();\nlet y = g(1);\nfn foo(i: int)->int{ i + 1 }",
    "fn main()->int{ forward fn foo(i: int)->int; fn getter()->(int)->(int){ foo } let g = getter(); let y = g(1); fn foo(i: int)->int{ i + 1 } y }",
    "forward fn foo(i: int)->int;\nlet l = ()->{ foo };\nlet y = l()(1);\nfn foo(i: int)->int{ i + 1 }",
    "forward fn foo(i: int)->int;\nfn w()->int{ let k = foo; k(1) }\nlet y = w();\nfn foo(i: int)->int{ i + 1 }",
    "forward fn a(i: int)->int;\nforward fn b(i: int)->int;\nfn a(i: int)->int{ b(i) }\nlet x = a(1);\nfn b(i: int)->int{ i }",
    "forward fn a(i: int)->int;\nforward fn b(i: int)->int;\nfn c(i: int)->int{ a(i) }\nfn a(i: int)->int{ b(i) }\nlet x = c(1);\nfn b(i: int)->int{ i }",
    "forward fn pick(x: int)->int;\nforward fn pick(x: str)->int;\nfn use_int()->int{ pick(1) }\nfn pick(x: str)->int{ x.len() }\nlet r = use_int();\nfn pick(x: int)->int{ x }",
    "let k = (i: int)->{ i % 3 };\nlet eq_ = k.to_eq();\nlet r = eq_(3, 6);",
    "let k = (i: int)->{ i % 3 };\nlet cmp_ = k.to_cmp();\nlet r = cmp_('a', 'b');",
    "struct P(x: int)\nfn mk()->P{ P(7) }\nfn host()->str{ struct P(x: str)  let xs = [P('a'), mk()]; xs[1]::x }\nlet w = host();",
    "struct P(x: int)\nfn mk()->P{ P(7) }\nfn host()->str{ struct P(x: str)  fn first(p: P)->str{ p::x }  first(mk()) }\nlet w = host();",
    "let x = add{int, $}(1);", "let x = add{$, $, $}(1, 2);", "fn foo(x: Sequence<int>)->int{ x.len() }\nlet a = foo{Sequence<$>}([1, 2]);",
    "fn f<T>(x: T, y: T ?= 0)->T{ y }\nlet b = f('a');\nlet r = b.len();",
    "fn f<T>(x: Sequence<T>, y: T ?= 0)->Sequence<T>{ x.push(y) }\nlet b = f(['a']);\nlet r = b[1].len();",
    "fn f(a: int, b: int ?= 5)->int{ a + b }\nfn g(a: int, b: int)->int{ a * b }\nlet h = if(false, f, g);\nlet r = h(2);",
    "fn f(a: int, b: int ?= 5)->int{ a + b }\nfn g(a: int, b: int)->int{ a * b }\nlet hs = [f, g];\nlet r = hs[1](2);",
    "fn f(a: int ?= 1)->int{ a }\nfn g(a: int)->int{ a }\nfn pick<T>(x: T, y: T)->T{ y }\nlet r = pick(f, g)();",
    "forward fn foo(x: int)->int;\nfn bar(x: int)->int{ foo(x) + 1 }\nfn foo(x: int)->str{ 'seven' }\nlet y = bar(1);",
    "let pending = stack().push(1).push(2);\nlet empty: Sequence<int> = [];\nlet merged = empty + pending;\nlet boxed = (merged, 'label');\nlet n = boxed::item0.len();",
    "fn main()->int{ fn h()->int{ main() } 1 }", "let r = (()->{ 1 })();", "let r = [()->{1}][0]();", "let r = some((x: int)->{x}).value()('a');",
    "type I = int;\nlet x: I = 'a';", "type F = (int)->(int);\nlet f: F = (a: str)->{1};\nlet r = f(1);",
    "struct S(a: int)\nlet r = S('a')::a + 1;", "struct S(a: int)\nlet r = S(1, 2);", "struct S(a: int)\nlet r = S()::a;", "union U(a: int, b: str)\nlet r = U::a('x')!:a + 1;",
    "union U(a: int, b: str)\nlet r = U::c(1);", "union U(a: int, b: str)\nlet r = U::a(1)::a;", "struct S(a: int)\nlet r = S(1)!:a;", "let r = (1, 2)?:item0;",
    "let x = 5;\nlet r = x(1);", "let r = 'abc'(0);", "let r = [1, 2](0);", "let r = display;", "let r = add;", "let r = if;", "let r = [add{int, int}, sub{int, int}][0](1, 2);",
    "let r = members(1);", "struct S(a: int, b: str)\nlet r = S(1, 'a').members()::item1 + 1;", "let r = (1, 'a').to_str().len();",
    "let r = json([1, 'a']);", "let r = json(mapping<int>().set(1, 1));", "let r = max([1, 'a']);", "let r = [[1], ['a']].sum();",
    "let r = mapping((x: int)->{'h'}, (a: int, b: int)->{a == b}).set(1, 2);", "let r = set((x: int)->{x}, (a: int, b: int)->{a}).add(1);",
    "let r = mapping((x: int)->{0 - 1}, (a: int, b: int)->{a == b}).set(1, 2).get(1);", "let r = set((x: int)->{18446744073709551616}, (a: int, b: int)->{a == b}).add(1).len();",
]


def surface_items(ctx):
    rng = ctx.rng
    overloads, dynamic, types, bad = surface.load(ctx)
    pools = surface.Pools(NASTY_INTS, NASTY_FLOATS, NASTY_STRS)
    tame = surface.Pools([0, 1, 2, 3, 5, -1], [0.0, 0.5, 1.0, 2.0, -1.5], ["a", "bc", "", "x y"])
    items = []
    per = ctx.pick(3, 120)
    for o in overloads:
        if o.name.startswith("__") or o.name in ("sleep", "assert"):
            continue
        for k in range(per):
            inh = surface.Inhabiter(overloads, rng, pools if k % 2 else tame)
            c = inh.call(o, depth=rng.choice([1, 2, 3]))
            if c is None:
                continue
            # some results are fed to a further call
            items.append({"expr": c, "op": f"{o.name}{o.sig}", "fam": "surface"})
    # chains: result of one call passed where its type is wanted (through the inhabiter's own composite rule)
    return items, overloads


DIST_FLOATS = [0.0, 1.0, -1.0, 0.5, 2.5, 1e-300, 1e300, -1e300, 5e-324, 1.7976931348623157e308, -1.7976931348623157e308]
DIST_INTS = [0, 1, 2, -1, 10, 1000, 2 ** 31, 2 ** 63 - 1, -(2 ** 63), 2 ** 70]
DIST_PROBES = {"float": ["0.0", "0.5", "1.0", "(-1.0)", "1e300", "(-1e300)", "5e-324", "1.7976931348623157e308"], "int": ["0", "1", "(-1)", "3", "9223372036854775807", "1180591620717411303424"]}


def dist_items(ctx, overloads):
    """every distribution constructor at every combination of extreme parameters; the ones that construct are handed
    to every function that consumes a distribution: the constructors validate what statrs validates, but sampling,
    quantiles and the moments go through further arithmetic (widths, scales, counters) that the constructor did
    not look at"""
    import itertools, random
    rng = random.Random(f"{ctx.seed}-extremes")      # its own stream: the other families keep theirs
    ctors = [o for o in overloads if repr(o.ret) in ("ContinuousDistribution", "DiscreteDistribution") and all(repr(p) in ("float", "int") for p in o.params)]
    users = [o for o in overloads if o.params and repr(o.params[0]) in ("ContinuousDistribution", "DiscreteDistribution") and all(repr(p) in ("float", "int") for p in o.params[1:])]
    cands = []
    for c in ctors:
        arities = {len(c.params)} | {k for k in range(len(c.params)) if c.optional[k]}
        for ar in sorted(arities):
            pools = [[surface.flit(x) for x in DIST_FLOATS] if repr(p) == "float" else [surface.ilit(x) for x in DIST_INTS] for p in c.params[:ar]]
            for combo in itertools.product(*pools):
                cands.append({"expr": f"{c.name}({', '.join(combo)})", "op": f"{c.name}{c.sig}", "fam": "dist_ctor", "ret": repr(c.ret)})
    outs, _ = batch.run_items(ctx, cands, per_program=60, dump={"per": 4, "nodes": 8}, name="C01_dist_ctor", timeout_ms=20000)
    built = [c for c, o in zip(cands, outs) if o["kind"] == "value"]
    items = []
    for c in built:
        for u in users:
            if repr(u.params[0]) != c["ret"]:
                continue
            rest = [["0", "3"]] if u.name == "sample" else [DIST_PROBES[repr(p)] for p in u.params[1:]]
            for tail in itertools.product(*rest):
                items.append({"expr": f"{u.name}({', '.join((c['expr'],) + tail)})", "op": f"{u.name}{u.sig}", "fam": "dist_extremes"})
    total = len(items)
    keep = ctx.pick(1200, 30000)
    if len(items) > keep:
        # every constructed distribution is sampled (the path with the most arithmetic of its own); the other uses are drawn
        always = [it for it in items if it["expr"].startswith("sample(") and it["expr"].endswith(", 3)")]
        rest = [it for it in items if not (it["expr"].startswith("sample(") and it["expr"].endswith(", 3)"))]
        items = always + rng.sample(rest, min(keep, len(rest)))
    return items, {"constructors": len(ctors), "parameter_combinations": len(cands), "constructed": len(built), "consumers": len(users), "uses_possible": total, "uses_run": len(items)}


PRIM_POOLS = {
    "int": [0, 1, -1, 2, 7, -100, 1 << 31, (1 << 63) - 1, 1 << 63, -(1 << 63), 1 << 64, 10 ** 30],
    "float": DIST_FLOATS,
    "str": ["", "a", "abc", "\u00e9\U0001F600", " ", "-1", "1e5", "{}", "%d", "\n", "(a*)*b", "[1, 2"],
    "bool": [True, False],
}
PRIM_LIMITS = {"search": 1000, "size": 4000000, "ud_call": 1000, "recursion": 100, "depth": 60}


def prim_items(ctx, overloads):
    """every overload whose parameters are all primitive, at the full product of the extreme values of each type
    (sampled per overload when the product is large): what the type-directed generator only meets by chance"""
    import itertools, random
    rng = random.Random(f"{ctx.seed}-extremes")      # its own stream: the other families keep theirs
    lit = {"int": surface.ilit, "float": surface.flit, "str": surface.slit, "bool": lambda b: "true" if b else "false"}
    sel = [o for o in overloads if o.params and all(repr(p) in PRIM_POOLS for p in o.params) and not o.name.startswith("__") and o.name not in ("sleep", "assert")]
    cap = ctx.pick(8, 300)
    items, possible = [], 0
    for o in sel:
        arities = {len(o.params)} | {k for k in range(1, len(o.params)) if o.optional[k]}
        for ar in sorted(arities):
            pools = [[lit[repr(p)](x) for x in PRIM_POOLS[repr(p)]] for p in o.params[:ar]]
            combos = list(itertools.product(*pools))
            possible += len(combos)
            if len(combos) > cap:
                combos = rng.sample(combos, cap)
            for combo in combos:
                items.append({"expr": f"{o.name}({', '.join(combo)})", "op": f"{o.name}{o.sig}", "fam": "prim_extremes"})
    return items, {"overloads": len(sel), "combinations_possible": possible, "combinations_run": len(items)}


def scan(obs_binding_or_call, where):
    out = []
    b = obs_binding_or_call
    if b.get("shape"):
        out.append(("shape", f"{where}: {b['shape']}"))
    if b.get("force_panic"):
        out.append(("panic_forcing", b["force_panic"]))
    return out


def run(ctx):
    ctx.canary()
    rng = ctx.rng
    total = 0
    executed = accepted = rejected = values = shapes = 0
    panic_sites, tags, reached = {}, {}, set()
    # ---- (a) the standard-library surface
    items, overloads = surface_items(ctx)
    limits_pool = [None, None, {"search": 50, "ud_call": 300, "depth": 40, "size": 200000}, {"search": 5, "ud_call": 30, "depth": 8, "recursion": 10, "size": 60000},
                   {"search": 1000, "size": 45000}, {"depth": 3}, {"ud_call": 3}]
    by_lim = {}
    for it in items:
        by_lim.setdefault(rng.randrange(len(limits_pool)), []).append(it)
    dist, dist_stats = dist_items(ctx, overloads)
    prim, prim_stats = prim_items(ctx, overloads)
    limits_pool.append(PRIM_LIMITS)
    limits_pool.append({"search": 1000000})     # binomial / hypergeometric sampling of astronomically many trials is refused instead of running for minutes
    groups = [(li, its, 20000) for li, its in by_lim.items()] + [(len(limits_pool) - 1, dist, 6000), (len(limits_pool) - 2, prim, 20000)]
    for li, its, budget in groups:
        extra = {"limits": limits_pool[li]} if limits_pool[li] else {}
        extra["perms"] = {"regex": True}
        outs, cases = batch.run_items(ctx, its, per_program=12, case_extra=extra, dump={"per": 24, "nodes": 800}, name=f"C01_surface{li}", timeout_ms=budget)
        for it, out, case in zip(its, outs, cases):
            total += 1
            k = out["kind"]
            tags[k] = tags.get(k, 0) + 1
            if k == "inconclusive":
                ctx.verdicts.inconclusive_case(str(out.get("detail")), case)
                continue
            if k == "rejected":
                rejected += 1
                continue
            accepted += 1
            executed += 1
            reached.add(it["op"])
            solo = batch.solo_case(ctx, it, case_extra=extra, dump={"per": 24, "nodes": 800})
            if k in ("value", "error"):
                values += 1
                shapes += 1
                if out.get("shape"):
                    ctx.verdicts.violation(f"shape|{it['op'][:70]}", solo, {"expr": it["expr"], "expected": "value of the static type " + str(out.get("type")), "observed": {"shape": out["shape"], "raw": str(out.get("raw"))[:300]}})
                continue
            if k == "violation":
                continue            # a legal outcome under limits
            if k == "panic":
                sig = core.panic_sig(out.get("panic"))
                panic_sites[sig] = panic_sites.get(sig, 0) + 1
                if "capacity overflow" in sig and "size" not in (limits_pool[li] or {}):
                    continue        # asking for > isize::MAX bytes with no size limit: memory exhaustion, the host's responsibility like an OOM abort
                ctx.verdicts.violation(f"panic|{it['op'][:70]}|{sig}", solo, {"expr": it["expr"], "expected": "value, error or violation", "observed": out.get("panic")})
                continue
            if k in ("died", "timeout"):
                lim = limits_pool[li] or {}
                if not all(x in lim for x in ("size", "search", "ud_call", "recursion")):
                    continue        # running out of memory / time without the corresponding limit is the host's responsibility (a tail loop needs the recursion limit; C10 covers the limited case)
                ctx.verdicts.violation(f"{k}|{it['op'][:70]}", solo, {"expr": it["expr"], "expected": "value, error or violation", "observed": out.get("detail")})
    # ---- (b) near misses, (c) generated core programs and corpus mutants, all executed completely
    progs = [(s, "near_miss") for s in NEAR_MISS]
    for _ in range(ctx.pick(150, 10000)):
        g = Gen(rng, effects=True, errors=True, max_depth=rng.choice([3, 4, 5, 6]))
        progs.append((g.program(rng.randint(2, 12)).src(rng), "generated"))
    corpus = c12.load_corpus()
    for t in corpus[:ctx.pick(100, 10 ** 6)]:
        progs.append((t, "corpus"))
    for _ in range(ctx.pick(500, 40000)):
        t = rng.choice(corpus)
        for _ in range(rng.randint(1, 2)):
            t = c12.mutate(rng, t)
        progs.append((t, "mutant"))
    cases = []
    for i, (src, fam) in enumerate(progs):
        c = {"id": f"C01-{fam}-{i}", "source": src, "dump": {"per": 24, "nodes": 800}, "rng_seed": 3, "meta": {"fam": fam}, "perms": {"regex": True}}
        lim = rng.choice(limits_pool)
        if lim:
            c["limits"] = lim
        zero_arg = re.findall(r"\bfn ([A-Za-z_]\w*)\(\)", src)
        if zero_arg:
            c["calls"] = [{"fn": n} for n in dict.fromkeys(zero_arg)][:4]
        cases.append(c)
    obs = ctx.run(cases, name="C01_prog", case_timeout_ms=20000)
    fam_acc = {}
    for c, o in zip(cases, obs):
        total += 1
        fam = c["meta"]["fam"]
        if o.get("timeout") or o.get("died") or o.get("harness_error"):
            if o.get("harness_error") or not o.get("confirmed"):
                ctx.verdicts.inconclusive_case("worker problem", c)
            elif not all(x in c.get("limits", {}) for x in ("size", "search", "ud_call", "recursion")):
                pass                # without the full set of limits resource exhaustion is the host's responsibility (a tail-recursive loop is bounded by the recursion limit only)
            elif o.get("died"):
                ctx.verdicts.violation(f"died|{fam}", c, {"expected": "value, error or violation", "observed": {k: o.get(k) for k in ("rc", "stderr")}})
            else:
                ctx.verdicts.violation(f"timeout_under_limits|{fam}", c, {"expected": "terminates", "observed": "timeout (confirmed)"})
            continue
        comp = o.get("compile", {})
        if comp.get("panic"):
            ctx.verdicts.violation(f"compile_panic|{core.panic_sig(comp['panic'])}", c, {"expected": "accept or reject", "observed": comp["panic"]})
            continue
        fa = fam_acc.setdefault(fam, [0, 0])
        fa[1] += 1
        if not comp.get("ok"):
            rejected += 1
            continue
        accepted += 1
        executed += 1
        fa[0] += 1
        for where, p in core.find_panics(o):
            sig = core.panic_sig(p)
            panic_sites[sig] = panic_sites.get(sig, 0) + 1
            if "capacity overflow" in sig and "size" not in c.get("limits", {}):
                continue
            if "ran out of scope parents" in sig and re.search(r"\bforward\s+fn\b", c["source"]):
                sig += "|program_declares_forward_fn"
            if "error when converting primitive" in sig and re.search(r"\bto_(cmp|eq|lt)\(", c["source"]):
                sig += "|program_calls_the_result_of_to_cmp_to_eq_or_to_lt"
            ctx.verdicts.violation(f"panic|{fam}|{where.split(':')[0]}|{sig}", c, {"expected": "value, error or violation", "observed": {"where": where, "panic": p}})
        for name, b in (o.get("bindings") or {}).items():
            if b.get("dump") is not None:
                values += 1
            if b.get("type"):
                shapes += 1
            if b.get("shape"):
                ctx.verdicts.violation(f"shape|{fam}|binding", c, {"expected": "value of static type " + str(b.get("type")), "observed": {"binding": name, "shape": b["shape"], "dump": str(b.get("dump"))[:300]}})
        for call in o.get("calls") or []:
            if call.get("outcome") == "tailcall_escaped":
                ctx.verdicts.violation(f"tailcall_escaped|{fam}", c, {"expected": "a value", "observed": call})
            if call.get("dump") is not None:
                values += 1
            if call.get("type"):
                shapes += 1
            if call.get("shape"):
                ctx.verdicts.violation(f"shape|{fam}|call", c, {"expected": "value of declared return type " + str(call.get("type")), "observed": {"fn": call.get("fn"), "shape": call["shape"], "dump": str(call.get("dump"))[:300]}})
    samples = [{"expr": items[0]["expr"], "overload": items[0]["op"]}, {"near_miss": NEAR_MISS[4]}, {"program": cases[len(NEAR_MISS) + 1]["source"][:600], "limits": cases[len(NEAR_MISS) + 1].get("limits")}]
    cov = {"evaluations": total, "distinct_nontrivial": len({it["expr"] for it in items}) + len({c["source"] for c, o in zip(cases, obs) if (o.get("compile") or {}).get("ok")}),
           "rule": "one evaluation = one generated call / program given to the compiler; non-trivial = accepted by the compiler and executed under the monitors "
                   "(every binding and every zero-argument function); distinct = distinct texts", "samples": samples,
           "accepted_and_executed": executed, "rejected_by_compiler": rejected, "values_monitored": values, "values_shape_checked": shapes,
           "overloads_in_table": len(overloads), "distinct_overloads_reached": len(reached), "outcome_kinds_surface": tags, "distinct_panic_sites": panic_sites,
           "acceptance_by_family": {k: f"{a}/{n}" for k, (a, n) in fam_acc.items()}, "near_miss_programs": len(NEAR_MISS), "distribution_extremes": dist_stats, "primitive_extremes": prim_stats}
    return {"coverage": cov, "broken": None if executed > 300 and values > 300 else "too few accepted programs executed",
            "assumptions": ["native stack exhaustion without a configured depth limit is host responsibility (generated recursion is shallow)",
                            "elements beyond 24 per container are not forced", "a timeout without any configured limit is not counted (C10 covers limits)",
                            "a 'capacity overflow' panic (a request for more than isize::MAX bytes) without a configured size limit is treated like an out-of-memory abort: host responsibility"]}


def replay(ctx, rec):
    c = rec["case"]
    o = ctx.run([c], name="C01_replay", case_timeout_ms=60000)[0]
    print(c["source"][:1500], c.get("limits"))
    bad = []
    if o.get("died") or o.get("timeout"):
        bad.append(str({k: o.get(k) for k in ("died", "timeout", "rc")}))
    if (o.get("compile") or {}).get("panic"):
        bad.append("compile panic " + str(o["compile"]["panic"]))
    for where, p in core.find_panics(o) if "compile" in o else []:
        bad.append(f"panic at {where}: {p}")
    for name, b in (o.get("bindings") or {}).items():
        if b.get("shape"):
            bad.append(f"shape {name}: {b['shape']}")
    for call in o.get("calls") or []:
        if call.get("shape") or call.get("outcome") == "tailcall_escaped":
            bad.append(f"call {call.get('fn')}: {call.get('shape') or call.get('outcome')}")
    print("observed:", bad or "nothing wrong")
    if bad:
        print(f"VIOLATION property={ctx.prop} replay=<replayed>")
        return 1
    print("replay: not reproduced")
    return 0
