"""C08 Depth, recursion, call and search limits are exact and transparent.
Every limit value from 1 to beyond the need of a program is placed (fault enumeration): the outcome
must be the corresponding violation exactly when the documented comparison says so, and otherwise
precisely the unlimited result.  The need comes from the reference evaluator (core programs) or
from the event tally of an unlimited run (programs using library functions written in the language)."""
from .. import batch, core
from ..corelang import Limits, value_to_model
from ..coregen import Gen

LEVEL = "fault_enumeration"
BIG = 1 << 40


def outcome_of(o):
    """('violation', kind) | ('ok', bindings) | ('other', failure)"""
    fail = batch.program_failure(o)
    if fail is None:
        return ("ok", o.get("bindings", {}))
    if fail["kind"] == "violation":
        return ("violation", fail["violation"])
    return ("other", fail)


def limit_values(ctx, need, extra=2):
    hi = need + extra
    vals = list(range(1, hi + 1))
    if ctx.quick and len(vals) > 10:
        keep = {1, 2, need - 1, need, need + 1, need + 2, hi}
        keep |= set(ctx.rng.sample(vals, 4))
        vals = sorted(v for v in vals if v in keep and v >= 1)
    return vals


def core_cases(ctx, n):
    """generated core programs (no recursion): exact call count and nesting depth from the reference"""
    rng = ctx.rng
    out = []
    for k in range(n):
        g = Gen(rng, effects=False, errors=False, max_depth=rng.choice([3, 4, 5]))     # error arguments: C06
        prog = g.program(rng.randint(3, 12))
        res, m, _ = prog.run()
        if m.calls == 0:
            continue
        src = prog.src(rng)
        names = [d.name for d in prog.decls if hasattr(d, "expr")]
        base = {"source": src, "exports": names, "dump": {"per": 32, "nodes": 1500}}
        for kind, need, key in (("calls", m.calls, "ud_call"), ("depth", m.max_depth, "depth")):
            for L in limit_values(ctx, need):
                lim = Limits(calls=L) if kind == "calls" else Limits(depth=L)
                _, _, viol = prog.run(limits=lim)
                c = dict(base)
                c["limits"] = {key: L}
                c["id"] = f"C08-core{k}-{kind}{L}"
                c["meta"] = {"fam": "core", "kind": kind, "L": L, "need": need, "expect_violation": viol, "prog": k}
                out.append((c, res))
        c = dict(base)
        c["limits"] = {"ud_call": BIG, "depth": BIG, "recursion": BIG, "search": BIG}
        c["id"] = f"C08-core{k}-big"
        c["meta"] = {"fam": "core", "kind": "all_big", "L": BIG, "need": m.calls, "expect_violation": None, "prog": k,
                     "expect_calls": m.calls, "expect_depth": m.max_depth}
        out.append((c, res))
    return out


REC = [
    # (name, source template with {K}, result(K), calls(K), depth(K), tail_run(K))
    ("nontail_sum", "fn r(n: int)->int{{ if(n <= 0, 0, n + r(n - 1)) }}\nlet x = r({K});", lambda K: K * (K + 1) // 2, lambda K: K + 1, lambda K: K + 1, lambda K: 0),
    ("tail_sum", "fn r(n: int, acc: int)->int{{ if(n <= 0, acc, r(n - 1, acc + n)) }}\nlet x = r({K}, 0);", lambda K: K * (K + 1) // 2, lambda K: 1, lambda K: 1, lambda K: K),
    ("tail_default", "fn r(n: int, acc: int ?= 0)->int{{ if(n <= 0, acc, r(n - 1, acc + n)) }}\nlet x = r({K});", lambda K: K * (K + 1) // 2, lambda K: 1, lambda K: 1, lambda K: K),
    ("nested_helpers", "fn h(n: int)->int{{ n + 1 }}\nfn r(n: int)->int{{ if(n <= 0, h(0), h(r(n - 1))) }}\nlet x = r({K});", lambda K: K + 1, lambda K: 2 * (K + 1), lambda K: K + 2, lambda K: 0),
    ("mutual", "forward fn odd(n: int)->bool;\nfn even(n: int)->bool{{ if(n == 0, true, odd(n - 1)) }}\nfn odd(n: int)->bool{{ if(n == 0, false, even(n - 1)) }}\nlet x = even({K});",
     lambda K: K % 2 == 0, lambda K: K + 1, lambda K: K + 1, lambda K: 0),
    ("map_calls", "fn f(x: int)->int{{ x * 2 }}\nlet x = range({K}).map(f).to_array().len();", lambda K: K, lambda K: K, lambda K: 1 if K else 0, lambda K: 0),
    ("lambda_in_reduce", "let x = range({K}).reduce(0, (a: int, b: int)->{{ a + b }});", lambda K: K * (K - 1) // 2, None, None, None),
    # a call whose argument is an error value is still a call (its body does not run): every statement is independent, so the count is exact
    ("calls_with_error_args", "fn f(a: int)->int{{ a + 1 }}\nfn g(a: int, b: int)->int{{ a + b }}\nlet e1 = f(error('e'));\nlet v1 = f(1);\nlet e2 = g(1, error('e'));\nlet v2 = g(1, 2);\nlet e3 = f([1][{K} + 5]);\nlet x = range({K}).map(f).to_array().len() + if_error(e1, 0) + if_error(e2, 0) + if_error(e3, 0) + v1 + v2;",
     lambda K: K + 5, lambda K: K + 5, lambda K: 1, lambda K: 0),
    # calls in tail position of *another* function are ordinary nested frames (only self calls are trampolined)
    ("tail_chain_other_fns", "fn c(n: int)->int{{ n + 1 }}\nfn b(n: int)->int{{ c(n + 1) }}\nfn a(n: int)->int{{ b(n + 1) }}\nfn top(n: int)->int{{ if(n <= 0, a(0), top(n - 1)) }}\nlet x = top({K});",
     lambda K: 3, lambda K: 4, lambda K: 4, lambda K: K),
    ("tail_chain_via_if", "fn c(n: int)->int{{ n }}\nfn b(n: int)->int{{ if(n > 100, 0, c(n)) }}\nfn a(n: int)->int{{ (n >= 0).if(b(n), 0) }}\nlet x = range({K}).map(a).to_array().len();",
     lambda K: K, lambda K: 3 * K, lambda K: 3 if K else 0, lambda K: 0),
    ("closure_depth", "fn mk(k: int)->(int)->(int){{ (x: int)->{{ x + k }} }}\nfn r(n: int)->int{{ if(n <= 0, 0, mk(n)(r(n - 1))) }}\nlet x = r({K});",
     lambda K: K * (K + 1) // 2, lambda K: 3 * K + 1, lambda K: K + 1, lambda K: 0),
]

LIB = [
    # programs that use functions written in the language: the need is learnt from the unlimited run's event tally
    "let x = gcd(1071, 462);", "let x = lcm(21, 6);", "let x = [3, 1, 2].sort();", "let x = 'a,b,c'.split(',').to_array();",
    "let x = [1, 2, 3].reverse().to_array();", "let x = factorial(6);", "let x = floor_root(50);", "let x = [1, 2, 3, 4].bisect((x: int)->{x < 3});",
    "let x = fraction(6, 8) + fraction(1, 4);", "let x = date(2460000);", "let x = ' ab '.strip();", "let x = [1, 2, 3].contains(2);",
    "let x = 'hello'.replace('l', 'L');", "let x = [5, 3, 9].max();", "let x = json([json(1.0), json('a')]).serialize();",
    "let x = [1, 2, 3, 4].to_generator().chunks(2).to_array();", "let x = [1, 2, 2, 3].to_generator().distinct().to_array();",
    "let x = [1, 2, 3].combinations(2).len();", "let x = 'abc'.reverse();", "let x = [1, 5, 2].median();",
]

SEARCH = [
    # (name, template {K}, elements examined as function of K, result as function of K)
    ("seq_nth", "let x = count().nth(0, (x: int)->{{x >= {K}}});", lambda K: K + 1),
    ("seq_take_while", "let x = count().take_while((x: int)->{{x < {K}}}).len();", lambda K: K + 1),
    ("seq_skip_until", "let x = count().skip_until((x: int)->{{x >= {K}}})[0];", lambda K: K + 1),
    ("seq_eq", "let x = range({K}).to_array() == range({K}).map((x: int)->{{x}});", lambda K: K),
    ("gen_to_array", "let x = range({K}).to_generator().to_array().len();", lambda K: K),
    ("gen_len", "let x = range({K}).to_generator().len();", lambda K: K),
    ("gen_nth", "let x = count().to_generator().nth(0, (x: int)->{{x >= {K}}});", lambda K: K + 1),
    ("gen_take_arr", "let x = count().to_generator().take({K}).to_array().len();", lambda K: K),
]


def rec_cases(ctx):
    out = []
    Ks = ctx.pick([0, 1, 2, 3, 7], [0, 1, 2, 3, 5, 8, 13, 40])
    for name, tmpl, fres, fcalls, fdepth, ftail in REC:
        for K in Ks:
            src = tmpl.format(K=K)
            base = {"source": src, "exports": ["x"], "dump": {"per": 64, "nodes": 500}}
            big = dict(base)
            big["limits"] = {"ud_call": BIG, "depth": BIG, "recursion": BIG}
            big["id"] = f"C08-rec-{name}-{K}-big"
            big["meta"] = {"fam": "rec", "name": name, "K": K, "kind": "all_big", "expect": fres(K),
                           "expect_calls": fcalls(K) if fcalls else None, "expect_depth": fdepth(K) if fdepth else None,
                           "expect_tail": ftail(K) if ftail else None}
            out.append(big)
            if fcalls is None:
                continue
            for kind, need, key in (("calls", fcalls(K), "ud_call"), ("depth", fdepth(K), "depth"), ("recursion", ftail(K), "recursion")):
                for L in limit_values(ctx, need):
                    if kind == "calls":
                        viol = "MaximumUDCall" if need >= L else None          # the L-th call reaches the limit
                    elif kind == "depth":
                        viol = "MaximumStackDepth" if need >= L else None      # a call nested L deep reaches the limit
                    else:
                        viol = "MaximumRecursion" if need > L else None        # consecutive tail self-calls exceed the limit
                    c = dict(base)
                    c["limits"] = {key: L}
                    c["id"] = f"C08-rec-{name}-{K}-{kind}{L}"
                    c["meta"] = {"fam": "rec", "name": name, "K": K, "kind": kind, "L": L, "need": need, "expect_violation": viol, "expect": fres(K)}
                    out.append(c)
    return out


def search_cases(ctx):
    out = []
    for name, tmpl, fneed in SEARCH:
        for K in ctx.pick([0, 1, 3, 6], [0, 1, 2, 3, 5, 9, 17]):
            src = tmpl.format(K=K)
            need = fneed(K)
            for L in [None] + limit_values(ctx, need):
                c = {"source": src, "exports": ["x"], "dump": {"per": 64, "nodes": 500}, "limits": ({"search": L} if L else {}),
                     "id": f"C08-search-{name}-{K}-{L}",
                     "meta": {"fam": "search", "name": name, "K": K, "kind": "search", "L": L, "need": need,
                              "expect_violation": ("MaximumSearch" if (L is not None and need > L) else None)}}
                out.append(c)
    return out


HIST = ("fn h(x: int)->int{{ x + 1 }}\n"
        "fn main()->int{{ range({K}).map(h).to_array().len() }}\n")


def history_cases(ctx):
    """run, run, [reset], run on one runtime: only the reset makes the last run succeed"""
    out = []
    for K in ctx.pick([0, 2, 5], [0, 1, 2, 5, 9]):
        per = K + 1         # main itself + K calls of h
        for L in {2 * per + 1, 2 * per, 2 * per + 2, 3 * per + 1}:
            for reset in (False, True):
                calls = [{"fn": "main"}, {"fn": "main"}, {"fn": "main", "reset_calls": reset}]
                exp = []
                used = 0
                for i in range(3):
                    if i == 2 and reset:
                        used = 0
                    ok = used + per < L
                    # the violation happens inside the run when the counter reaches L
                    exp.append("ok" if used + per < L else "violation")
                    used = min(L, used + per)
                out.append({"source": HIST.format(K=K), "exports": [], "limits": {"ud_call": L}, "calls": calls,
                            "id": f"C08-hist-{K}-{L}-{reset}", "meta": {"fam": "history", "K": K, "L": L, "reset": reset, "expect": exp, "kind": "history"}})
    return out


def run(ctx):
    ctx.canary()
    cc = core_cases(ctx, ctx.pick(120, 2500))
    core_list = [c for c, _ in cc]
    core_res = [r for _, r in cc]
    rec_list = rec_cases(ctx)
    search_list = search_cases(ctx)
    hist_list = history_cases(ctx)
    # library programs: first learn the need from the unlimited run
    lib0 = [{"source": s, "exports": ["x"], "dump": {"per": 64, "nodes": 800}, "limits": {"ud_call": BIG, "depth": BIG}, "id": f"C08-lib{i}-big",
             "meta": {"fam": "lib", "kind": "learn", "src": s}} for i, s in enumerate(LIB)]
    obs0 = ctx.run(lib0, name="C08_lib0")
    lib_list = []
    for c, o in zip(lib0, obs0):
        if batch.program_failure(o) is not None:
            continue
        snap = o["instantiate"]["snap"]
        calls, height = snap.get("ud_calls", 0), snap.get("max_height", 0)
        c["meta"]["learnt"] = {"calls": calls, "depth": height, "acct_calls": snap.get("acct_calls", 0)}
        for kind, need, key in (("calls", calls, "ud_call"), ("depth", height, "depth")):
            for L in limit_values(ctx, need):
                if kind == "calls":
                    viol = "MaximumUDCall" if need >= L else None
                else:
                    viol = "MaximumStackDepth" if need >= L else None
                lib_list.append({"source": c["source"], "exports": ["x"], "dump": c["dump"], "limits": {key: L}, "id": f"{c['id']}-{kind}{L}",
                                 "meta": {"fam": "lib", "kind": kind, "L": L, "need": need, "expect_violation": viol, "src": c["meta"]["src"],
                                          "unlimited_dump": o["bindings"]["x"].get("dump")}})
    allc = core_list + rec_list + search_list + hist_list + lib_list
    obs = ctx.run(allc, name="C08")
    total = ok = 0
    exact = counter_ok = 0
    triples = set()
    kinds = {}
    idx = 0
    for c, o in zip(lib0 + allc, obs0 + obs):
        meta = c["meta"]
        total += 1
        kinds[meta["fam"] + ":" + meta["kind"]] = kinds.get(meta["fam"] + ":" + meta["kind"], 0) + 1
        if o.get("timeout") or o.get("died") or o.get("harness_error"):
            if o.get("confirmed"):
                ctx.verdicts.violation(f"{meta['fam']}|{meta['kind']}|{'timeout' if o.get('timeout') else 'died'}", c, {"expected": meta, "observed": {k: o.get(k) for k in ('timeout', 'died', 'rc')}})
            else:
                ctx.verdicts.inconclusive_case("worker died/timed out once", c)
            continue
        if meta["kind"] == "learn":
            snap = o.get("instantiate", {}).get("snap", {})
            if snap.get("acct_calls", 0) != snap.get("ud_calls", 0):
                ctx.verdicts.violation("lib|counter_vs_tally", c, {"expected": "limit counter == number of user-call events", "observed": snap})
            else:
                counter_ok += 1
                ok += 1
            continue
        if meta["fam"] == "history":
            got = []
            for call in o.get("calls", []):
                got.append("ok" if call["outcome"] == "ok" else "violation" if call["outcome"] == "violation" and call.get("violation") == "MaximumUDCall" else call["outcome"])
            if got == meta["expect"]:
                ok += 1
            else:
                ctx.verdicts.violation(f"history|reset={meta['reset']}|differs", c, {"expected": meta, "observed": got})
            continue
        kind, payload = outcome_of(o)
        L = meta.get("L")
        triples.add((c["source"], meta["kind"], L))
        snap = (o.get("instantiate") or {}).get("snap", {})
        if kind == "other":
            sig = f"{meta['fam']}|{meta['kind']}|" + payload["kind"] + (":" + core.panic_sig(payload.get("panic")) if payload["kind"] == "panic" else ":" + str(payload.get("class")))
            ctx.verdicts.violation(sig, c, {"expected": meta, "observed": payload})
            continue
        want_v = meta.get("expect_violation")
        if kind == "violation":
            if want_v == payload:
                ok += 1
                exact += 1
            else:
                rel = "violation_at_sufficient_limit" if want_v is None else "wrong_violation_kind"
                ctx.verdicts.violation(f"{meta['fam']}|{meta['kind']}|{meta.get('name', '')}|{rel}", c, {"expected": meta, "observed": payload})
            continue
        # no violation
        if want_v is not None:
            ctx.verdicts.violation(f"{meta['fam']}|{meta['kind']}|{meta.get('name', '')}|no_violation_at_insufficient_limit", c,
                                   {"expected": meta, "observed": {"bindings": {k: v.get("dump") for k, v in payload.items()}, "snap": snap}})
            continue
        good = True
        # transparency: the values are those of the unlimited evaluation
        if meta["fam"] == "core":
            res = core_res[core_list.index(c)] if False else None
        if meta["fam"] == "rec" and "expect" in meta:
            out = batch.binding_outcome(payload.get("x"))
            if not batch.matches(meta["expect"], out):
                good = False
                ctx.verdicts.violation(f"rec|{meta['kind']}|{meta['name']}|value_differs", c, {"expected": meta, "observed": out.get("raw")})
        if meta["fam"] == "lib":
            if payload.get("x", {}).get("dump") != meta["unlimited_dump"]:
                good = False
                ctx.verdicts.violation("lib|value_depends_on_limit", c, {"expected": meta["unlimited_dump"], "observed": payload.get("x", {}).get("dump")})
        if meta["kind"] == "all_big":
            # counters against the reference / the tally
            if snap.get("acct_calls", 0) != snap.get("ud_calls", 0):
                good = False
                ctx.verdicts.violation(f"{meta['fam']}|counter_vs_tally", c, {"expected": "limit counter == number of user-call events", "observed": snap})
            for key, field in (("expect_calls", "ud_calls"), ("expect_depth", "max_height"), ("expect_tail", "max_tail_run")):
                if meta.get(key) is not None and snap.get(field, 0) != meta[key]:
                    good = False
                    ctx.verdicts.violation(f"{meta['fam']}|{meta.get('name', 'core')}|{field}_differs_from_reference", c, {"expected": {key: meta[key]}, "observed": snap})
                    break
            if good:
                counter_ok += 1
        if good:
            ok += 1
            if L is not None:
                exact += 1
    # transparency for core programs: compare with the model values
    for (c, res), o in zip(cc, obs[:len(cc)]):
        kind, payload = outcome_of(o)
        if kind != "ok":
            continue
        for name, v in res.items():
            out = batch.binding_outcome(payload.get(name))
            if not batch.matches(value_to_model(v), out):
                ctx.verdicts.violation("core|value_under_limit_differs_from_reference", c, {"binding": name, "expected": repr(value_to_model(v))[:200], "observed": out.get("raw")})
                break
    samples = [{"source": rec_list[1]["source"], "limits": rec_list[1]["limits"], "meta": rec_list[1]["meta"]},
               {"source": search_list[1]["source"], "limits": search_list[1]["limits"], "meta": search_list[1]["meta"]},
               {"source": hist_list[0]["source"], "calls": hist_list[0]["calls"], "limits": hist_list[0]["limits"], "expect": hist_list[0]["meta"]["expect"]}]
    cov = {"evaluations": total, "distinct_nontrivial": len(triples),
           "rule": "one evaluation = one (program, limit kind, limit value) execution compared with the outcome the documented comparison predicts; "
                   "distinct = distinct such triples; for every program every limit value from 1 to need+2 is placed (thorough) or a stratified subset containing need-1, need, need+1 (quick)",
           "samples": samples, "agreeing": ok, "exact_threshold_confirmations": exact, "counter_equals_tally_confirmations": counter_ok,
           "cases_by_family": kinds, "host_histories": len(hist_list), "library_programs": len(LIB), "exhaustive": not ctx.quick}
    return {"coverage": cov, "broken": None if ok > 100 else "too few agreeing executions",
            "assumptions": ["depth: violation when a call would be nested L deep (top-level call = depth 1); calls: when the count reaches L; recursion: when consecutive tail self-calls exceed L; search: when more than L elements are examined",
                            "a trampolined tail self-call is not a new call", "for library functions the need is the event tally of an unlimited run"]}


def replay(ctx, rec):
    case = rec["case"]
    o = ctx.run([case], name="C08_replay")[0]
    kind, payload = outcome_of(o)
    print(case["source"], "\nlimits:", case.get("limits"), "\nexpected:", rec["detail"].get("expected"))
    print("observed:", kind, payload if kind != "ok" else {k: v.get("dump") for k, v in payload.items()}, [c.get("outcome") for c in o.get("calls", [])])
    meta = case.get("meta", {})
    if meta.get("fam") == "history":
        got = ["ok" if c["outcome"] == "ok" else "violation" for c in o.get("calls", [])]
        bad = got != meta["expect"]
    else:
        want = meta.get("expect_violation")
        bad = (kind == "violation" and payload != want) or (kind == "ok" and want is not None) or kind == "other"
    if bad:
        print(f"VIOLATION property={ctx.prop} replay=<replayed>")
        return 1
    print("replay: not reproduced")
    return 0
