"""C14 Integers are exact at every magnitude.
Oracle: Python ints / fractions (independent of every Rust crate the implementation uses)."""
import math
from fractions import Fraction

from .. import batch, core
from ..batch import AnyOf, Approx, Err, Skip

LEVEL = "exploration"

I64 = 1 << 63


def lit(n):
    if 0 <= n < (1 << 126):
        return str(n)
    if n < 0 and -n < (1 << 126):
        return f"(-{-n})"
    return f'"{n}".to_int()'


def cls(n):
    mag = "S" if -I64 <= n < I64 else "L"
    edge = ""
    for e in (63, 64, 127, 128, 31, 32):
        if abs(abs(n) - (1 << e)) <= 2:
            edge = f"e{e}"
            break
    sign = "0" if n == 0 else ("+" if n > 0 else "-")
    return f"{sign}{mag}{edge}"


def operand_pool(rng, n_random):
    pool = [0, 1, -1, 2, -2, 3, 7, -7, 10, 12, 255, 256, 1000, -1000]
    for e in (31, 32, 63, 64, 127, 128):
        for d in (-2, -1, 0, 1, 2):
            pool.append((1 << e) + d)
            pool.append(-(1 << e) + d)
    for _ in range(n_random):
        bits = rng.choice([3, 8, 16, 30, 33, 62, 63, 64, 65, 70, 100, 127, 128, 129, 200, 400])
        v = rng.getrandbits(bits)
        if rng.random() < 0.5:
            v = -v
        pool.append(v)
    return pool


def to_base(n, b):
    digs = "0123456789abcdefghijklmnopqrstuvwxyz"
    if n == 0:
        return "0"
    s, m = "", abs(n)
    while m:
        s = digs[m % b] + s
        m //= b
    return ("-" if n < 0 else "") + s


def pyfloat_div(a, b):
    try:
        return Approx(a / b, rel=2.5e-16)
    except OverflowError:
        return Err()


def iroot_floor(a, r):
    if a < 0:
        return Err()
    if a == 0:
        return 0
    lo, hi = 0, 1 << (a.bit_length() // r + 1)
    while lo < hi:
        mid = (lo + hi + 1) // 2
        if mid ** r <= a:
            lo = mid
        else:
            hi = mid - 1
    return lo


def iroot_ceil(a, r):
    if a < 0:
        return Err()
    f = iroot_floor(a, r)
    return f if f ** r == a else f + 1


def multifact(n, step):
    if n < 0:
        return Err()
    r = 1
    while n > 0:
        r *= n
        n -= step
    return r


def sgn(x):
    return (x > 0) - (x < 0)


BIN = {
    # name: (python model, operator or None)
    "add": (lambda a, b: a + b, "+"),
    "sub": (lambda a, b: a - b, "-"),
    "mul": (lambda a, b: a * b, "*"),
    "mod": (lambda a, b: Err() if b == 0 else a % b, "%"),
    "div": (lambda a, b: Err() if b == 0 else pyfloat_div(a, b), "/"),
    "div_floor": (lambda a, b: Err() if b == 0 else a // b, None),
    "div_ceil": (lambda a, b: Err() if b == 0 else -((-a) // b), None),
    "bit_and": (lambda a, b: a & b, "&"),
    "bit_or": (lambda a, b: a | b, "|"),
    "bit_xor": (lambda a, b: a ^ b, "^"),
    "cmp": (lambda a, b: sgn(a - b), None),
    "eq": (lambda a, b: a == b, "=="),
    "ne": (lambda a, b: a != b, "!="),
    "lt": (lambda a, b: a < b, "<"),
    "le": (lambda a, b: a <= b, "<="),
    "gt": (lambda a, b: a > b, ">"),
    "ge": (lambda a, b: a >= b, ">="),
    "gcd": (lambda a, b: math.gcd(a, b), None),
    "lcm": (lambda a, b: AnyOf(Err(), 0) if a == 0 and b == 0 else abs(a * b) // math.gcd(a, b), None),
}
UN = {
    "neg": (lambda a: -a, "-"),
    "abs": (lambda a: abs(a), None),
    "sign": (lambda a: sgn(a), None),
    "to_str": (lambda a: str(a), None),
}


def call_form(rng, name, op, args):
    """operators are names: choose one of the documented surface forms at random"""
    forms = ["named", "method"]
    if op:
        forms.append("op")
    f = rng.choice(forms)
    if f == "op":
        if len(args) == 2:
            return f"({args[0]} {op} {args[1]})"
        return f"({op}{args[0]})"
    if f == "method":
        return f"({args[0]}).{name}({', '.join(args[1:])})"
    return f"{name}({', '.join(args)})"


def gen_items(ctx):
    rng = ctx.rng
    pool = operand_pool(rng, ctx.pick(40, 400))
    items = []

    def add(expr, expect, op, operands):
        items.append({"expr": expr, "expect": expect, "op": op, "operands": operands})

    n_bin = ctx.pick(90, 2500)
    for name, (model, op) in BIN.items():
        for _ in range(n_bin):
            a, b = rng.choice(pool), rng.choice(pool)
            if rng.random() < 0.15:
                b = a + rng.choice([-1, 0, 1])
            if name in ("mod", "div_floor", "div_ceil", "div") and rng.random() < 0.3:
                b = rng.choice([1, -1, 2, -2, 3, -3, 7, -7, 10, (1 << 63), -(1 << 63), (1 << 64) + 1])
            add(call_form(rng, name, op, [lit(a), lit(b)]), model(a, b), name, (a, b))
    # products / quotients / differences that land exactly on the 64-bit edge
    for a, b in [(1 << 63, -1), (-1, 1 << 63), (-(1 << 63), -1), (1 << 62, 2), (1 << 62, -2), (-(1 << 62), 2), (1 << 32, 1 << 31),
                 (-(1 << 32), 1 << 31), (3037000500, 3037000500), ((1 << 64), -1), ((1 << 63) + 1, -1)]:
        for name in ("mul", "div_floor", "div_ceil", "add", "sub", "mod", "gcd", "lcm", "bit_and", "bit_or", "bit_xor"):
            model, op = BIN[name]
            x = call_form(rng, name, op, [lit(a), lit(b)])
            v = model(a, b)
            add(x, v, name, (a, b))
            if isinstance(v, int) and not isinstance(v, bool):
                L = lit(v)
                items.append({"expr": f"({x}, {x} == {L}, hash({x}) == hash({L}), cmp({x}, {L}), ({x}).to_str(), true)",
                              "expect": (v, True, True, 0, str(v), True), "op": "route:edge_" + name, "operands": (a, b)})
    for name, (model, op) in UN.items():
        for _ in range(ctx.pick(60, 1200)):
            a = rng.choice(pool)
            add(call_form(rng, name, op, [lit(a)]), model(a), name, (a,))
    # pow
    for _ in range(ctx.pick(150, 4000)):
        a = rng.choice(pool)
        b = rng.choice([0, 1, 2, 3, 5, 8, 16, 31, 32, 63, 64, 65, 100, -1, -5])
        if a.bit_length() * max(b, 1) > 40000:
            b = 2
        if b < 0 or (a == 0 and b == 0):
            exp = Err()
        else:
            exp = a ** b
        add(call_form(rng, "pow", "**", [lit(a), lit(b)]), exp, "pow", (a, b))
    # to_float
    for _ in range(ctx.pick(80, 1500)):
        a = rng.choice(pool + [10 ** 308, 10 ** 309, -(10 ** 309), (1 << 1023), (1 << 1024) - 1, 1 << 1024, 10 ** 400, (1 << 53) + 1, -(1 << 53) - 1])
        try:
            exp = float(a)
            if int(exp) != a:
                # not representable: either neighbouring double is accepted (the book does not fix a rounding)
                lo = exp if int(exp) < a else math.nextafter(exp, -math.inf)
                hi = exp if int(exp) > a else math.nextafter(exp, math.inf)
                exp = AnyOf(lo, hi) if math.isfinite(hi) and math.isfinite(lo) else AnyOf(lo if math.isfinite(lo) else hi, Err())
        except OverflowError:
            exp = Err()
        add(f"to_float({lit(a)})", exp, "to_float", (a,))
    # text conversions in all bases
    for _ in range(ctx.pick(200, 6000)):
        a = rng.choice(pool)
        base = rng.randint(2, 36)
        s = to_base(a, base)
        add(f'"{s}".to_int({base})', a, "to_int", (a, base))
    for _ in range(ctx.pick(60, 1500)):
        a = rng.choice(pool)
        for spec, b in (("x", 16), ("o", 8), ("b", 2)):
            add(f'format({lit(a)}, "{spec}")', to_base(a, b), "format_" + spec, (a,))
    # decimal round trip
    for _ in range(ctx.pick(60, 1500)):
        a = rng.choice(pool)
        add(f"({lit(a)}).to_str().to_int()", a, "to_str_to_int", (a,))
    # digits
    for _ in range(ctx.pick(100, 2500)):
        a = abs(rng.choice(pool))
        base = rng.choice([2, 3, 7, 10, 16, 36, 256, 1000, (1 << 64), (1 << 70) + 3])
        ds, m = [], a
        while m:
            ds.append(m % base)
            m //= base
        exp = ds if a else AnyOf([], [0])
        if rng.random() < 0.5 and base == 10:
            add(f"digits({lit(a)})", exp, "digits", (a, base))
        else:
            add(f"digits({lit(a)}, {lit(base)})", exp, "digits", (a, base))
    # factorial, binom, multinom
    for _ in range(ctx.pick(60, 1200)):
        n = rng.choice([0, 1, 2, 5, 10, 20, 21, 25, 30, 50, 100, 170, -1, -3])
        step = rng.choice([1, 1, 1, 2, 3, 5])
        if step == 1 and rng.random() < 0.5:
            add(f"factorial({lit(n)})", multifact(n, 1), "factorial", (n, 1))
        else:
            add(f"factorial({lit(n)}, {step})", multifact(n, step), "factorial", (n, step))
    for _ in range(ctx.pick(120, 3000)):
        n = rng.choice([0, 1, 2, 5, 10, 20, 30, 40, 60, 62, 63, 64, 65, 66, 67, 68, 70, 100, 200, 300, (1 << 63) + 5, (1 << 64) + 1])
        k = rng.choice([0, 1, 2, 3, n // 2 if n < 1000 else 4, n - 1 if n < 1000 else 5, n if n < 1000 else 6, n + 1, -1])
        if k < 0 or k > n:
            exp = Err()
        else:
            exp = math.comb(n, k)
        add(f"binom({lit(n)}, {lit(k)})", exp, "binom", (n, k))
    for _ in range(ctx.pick(60, 1500)):
        ks = [rng.choice([0, 1, 2, 3, 5, 10, 20, 30, 40]) for _ in range(rng.randint(0, 5))]
        if rng.random() < 0.1 and ks:
            ks[rng.randrange(len(ks))] = -1
        if any(k < 0 for k in ks):
            # a negative entry has no multinomial coefficient; the book does not say what happens
            exp = Skip()
        else:
            exp = math.factorial(sum(ks))
            for k in ks:
                exp //= math.factorial(k)
        add(f"multinom([{', '.join(map(lit, ks))}])", exp, "multinom", tuple(ks))
    # roots
    for _ in range(ctx.pick(80, 1500)):
        a = rng.choice([0, 1, 2, 3, 4, 8, 9, 15, 16, 17, 24, 25, 26, 99, 100, 101, 10 ** 6, 10 ** 6 + 1, (1 << 40) - 1, 1 << 40, (1 << 62) + 7, -4])
        r = rng.choice([2, 2, 3, 4, 5])
        fn = rng.choice(["floor_root", "ceil_root"])
        model = iroot_floor if fn == "floor_root" else iroot_ceil
        if r == 2 and rng.random() < 0.5:
            add(f"{fn}({lit(a)})", model(a, 2), fn, (a, 2))
        else:
            add(f"{fn}({lit(a)}, {r})", model(a, r), fn, (a, r))
    # sum / product over sequences and generators
    for _ in range(ctx.pick(60, 1500)):
        xs = [rng.choice(pool) for _ in range(rng.randint(0, 6))]
        gen = rng.random() < 0.5
        arr = "[" + ", ".join(map(lit, xs)) + "]" + (".to_generator()" if gen else "")
        if not xs:
            arr = "[].map((x: int)->{x})" + (".to_generator()" if gen else "")
        add(f"sum({arr})", sum(xs), "sum", tuple(xs))
        p = 1
        for x in xs:
            p *= x
        add(f"product({arr})", p, "product", tuple(xs))
    # results obtained by different routes are indistinguishable from the literal
    for _ in range(ctx.pick(250, 6000)):
        a, b = rng.choice(pool), rng.choice(pool)
        route = rng.choice(["a+b-b", "a*b/b", "-(-a)", "a-b+b", "str", "a^b^b", "a*1", "a+0", "(a*b).div_floor(b)", "a-(a-x)"])
        if route == "a+b-b":
            x, v = f"({lit(a)} + {lit(b)} - {lit(b)})", a
        elif route == "a*b/b":
            if b == 0:
                continue
            x, v = f"div_floor({lit(a)} * {lit(b)}, {lit(b)})", a
        elif route == "-(-a)":
            x, v = f"(-(-{lit(a)}))", a
        elif route == "a-b+b":
            x, v = f"({lit(a)} - {lit(b)} + {lit(b)})", a
        elif route == "str":
            x, v = f"({lit(a)}).to_str().to_int()", a
        elif route == "a^b^b":
            x, v = f"(({lit(a)} ^ {lit(b)}) ^ {lit(b)})", a
        elif route == "a*1":
            x, v = f"({lit(a)} * 1)", a
        elif route == "a+0":
            x, v = f"({lit(a)} + 0)", a
        elif route == "(a*b).div_floor(b)":
            if b == 0:
                continue
            x, v = f"({lit(a)} * {lit(b)}).div_floor({lit(b)})", a
        else:
            # a large value minus a large value lands back in the small range
            x, v = f"({lit(a)} - ({lit(a)} - {lit(b % 1000)}))", b % 1000
        L = lit(v)
        h = v if 0 <= v < (1 << 64) else None
        expr = f"({x}, {x} == {L}, hash({x}) == hash({L}), cmp({x}, {L}), ({x}).to_str(), hash({x}) >= 0 && hash({x}) < 18446744073709551616)"
        items.append({"expr": expr, "expect": (v, True, True, 0, str(v), True), "op": "route:" + route, "operands": (a, b)})
    rng.shuffle(items)
    return items


def relation(expect, out):
    if out["kind"] in ("panic",):
        return "panic:" + core.panic_sig(out.get("panic"))
    if out["kind"] in ("died", "timeout"):
        return out["kind"]
    if out["kind"] in ("rejected", "violation", "missing"):
        return out["kind"] + ":" + str(out.get("class") or out.get("violation") or "")
    if isinstance(expect, Err):
        return "value_where_error_expected"
    if out["kind"] == "error":
        return "error_where_value_expected"
    d = out["dump"]
    if isinstance(expect, bool) or not isinstance(expect, int):
        if isinstance(expect, tuple) and d[0] == "t":
            bad = [i for i, (e, o) in enumerate(zip(expect, d[1])) if batch.to_dump(e) != o]
            return "route_component_" + "_".join(map(str, bad))
        return "differs"
    if d[0] != "i":
        return "wrong_kind"
    o = d[1]
    if o == -expect:
        return "negated"
    if o == 0:
        return "zero"
    if abs(o - expect) == abs(expect) * 0 + abs(o - expect) and abs(o - expect) in (1, 2):
        return "off_by_small"
    return "differs"


def decide_item(ctx, item, out, case):
    exp = item["expect"]
    if out["kind"] == "inconclusive":
        ctx.verdicts.inconclusive_case(str(out.get("detail")), case)
        return False
    if batch.matches(exp, out):
        return True
    classes = ",".join(cls(x) for x in item["operands"] if isinstance(x, int))[:40]
    sig = f"{item['op']}|{classes}|{relation(exp, out)}"
    ctx.verdicts.violation(sig, batch.solo_case(ctx, item, dump={"per": 700, "nodes": 6000}), {
        "expr": item["expr"], "expected": repr(exp), "observed": {k: out.get(k) for k in ("kind", "raw", "panic", "err", "class", "violation")}})
    return False


def run(ctx):
    ctx.canary()
    items = gen_items(ctx)
    outs, cases = batch.run_items(ctx, items, per_program=40, dump={"per": 700, "nodes": 6000})
    ok = 0
    matrix = {}
    latent_long = 0
    distinct = set()
    for item, out, case in zip(items, outs, cases):
        good = decide_item(ctx, item, out, case)
        ok += good
        key = item["op"].split(":")[0]
        for x in item["operands"]:
            if isinstance(x, int):
                matrix.setdefault(key, {}).setdefault(cls(x)[:2], 0)
                matrix[key][cls(x)[:2]] += 1
        distinct.add((item["op"], item["operands"]))
        raw = out.get("raw")
        if raw:
            def chk(n):
                nonlocal latent_long
                if n[0] == "i" and len(n) > 2 and n[2] == "L" and -I64 <= int(n[1]) < I64:
                    latent_long += 1
            core.walk_dump(raw, chk)
    samples = [{"expr": it["expr"], "expected": repr(it["expect"]), "observed": o.get("raw")} for it, o in list(zip(items, outs))[:4]]
    cov = {
        "evaluations": len(items),
        "distinct_nontrivial": len(distinct),
        "rule": "one evaluation = one integer expression evaluated by the real interpreter and compared with Python "
                "integer arithmetic; distinct = distinct (operation, operand tuple); all are non-trivial (each has a model value)",
        "samples": samples,
        "agreeing": ok,
        "operation_x_operand_class_matrix": matrix,
        "latent_noncanonical_long_values_seen": latent_long,
        "programs": (len(items) + 39) // 40,
    }
    broken = None
    if len(items) < 100 or ok == 0:
        broken = "too few evaluations or nothing agreed"
    return {"coverage": cov, "broken": broken, "assumptions": [
        "big integer literals are written as \"...\".to_int() (literals beyond i128 are not integers in the grammar)",
        "int/int true division is accepted within 1 ulp of the correctly rounded quotient",
        "to_float of an integer that is not a double may be either neighbouring double; representable integers must convert exactly",
        "digits(0) may be [] or [0]; lcm(0,0) may be 0 or an error (book and code disagree, neither is inexact)",
        "pow exponents <= 100 and results <= 40000 bits"]}


def decide(ctx, case, obs):
    # replay: the case is a single-expression program; re-evaluate through the generic path is not
    # possible without the model value, so replay re-runs the generator deterministically
    raise NotImplementedError


def replay(ctx, rec):
    """re-execute the recorded expression and compare with the recorded expectation text"""
    case = rec["case"]
    obs = ctx.run([case], name="C14_replay")[0]
    fail = batch.program_failure(obs)
    out = fail if fail is not None else batch.binding_outcome(obs.get("bindings", {}).get("r0"))
    print("expected:", rec["detail"]["expected"])
    print("observed:", {k: out.get(k) for k in ("kind", "raw", "panic", "err", "violation")})
    exp = eval(rec["detail"]["expected"], {"Err": Err, "AnyOf": AnyOf, "Approx": Approx, "Skip": Skip})
    if batch.matches(exp, out):
        print("replay: no violation reproduced")
        return 0
    print(f"VIOLATION property={ctx.prop} replay={rec.get('path', '<replayed>')}")
    return 1
