"""C02 Core evaluation follows the documented semantics.
Oracle: the independent big-step evaluator of xrv.corelang (values of all top-level bindings and
the output, line by line); precedence/associativity and sugar equivalences; effect probes for
argument order and multiplicity."""
import itertools

from .. import batch, core
from ..corelang import Printer, is_err, value_to_model
from ..coregen import Gen

LEVEL = "exploration"


def is_subseq(a, b):
    it = iter(b)
    return all(any(x == y for y in it) for x in a)


def program_cases(ctx, n):
    rng = ctx.rng
    cases = []
    for k in range(n):
        g = Gen(rng, effects=True, errors=rng.random() < 0.7, max_depth=rng.choice([3, 4, 5, 6]))
        prog = g.program(rng.randint(2, 14))
        try:
            res, m, viol = prog.run()
            res2, m2, _ = prog.run(stop_at_error=True)
        except RecursionError:
            continue
        src = prog.src(rng)
        names = [d.name for d in prog.decls if hasattr(d, "expr")]
        cases.append({"id": f"C02-p{k}", "source": src, "exports": names, "dump": {"per": 64, "nodes": 3000},
                      "meta": {"kind": "program"}, "_model": (res, m, m2)})
    return cases


OPS_INT = ["**", "*", "%", "+", "-", "|", "&", "^"]
OPS_CMP = ["<", ">", "<=", ">=", "==", "!="]
OPS_BOOL = ["&&", "||"]
PREC = {"**": 6, "*": 5, "/": 5, "%": 5, "+": 4, "-": 4, "|": 3, "&": 3, "^": 3, "<": 2, ">": 2, "<=": 2, ">=": 2, "==": 2, "!=": 2, "&&": 1, "||": 1}


def py_op(op, a, b):
    if op == "**":
        return a ** b
    if op == "*":
        return a * b
    if op == "%":
        return a % b
    if op == "+":
        return a + b
    if op == "-":
        return a - b
    if op == "|":
        return a | b
    if op == "&":
        return a & b
    if op == "^":
        return a ^ b
    if op == "<":
        return a < b
    if op == ">":
        return a > b
    if op == "<=":
        return a <= b
    if op == ">=":
        return a >= b
    if op == "==":
        return a == b
    if op == "!=":
        return a != b
    if op == "&&":
        return a and b
    if op == "||":
        return a or b


def parse_flat(tokens):
    """precedence climbing over the documented table (** right-assoc, others left)"""
    def climb(pos, min_prec):
        lhs = tokens[pos]
        pos += 1
        while pos < len(tokens):
            op = tokens[pos]
            p = PREC[op]
            if p < min_prec:
                break
            nxt = p if op == "**" else p + 1
            rhs, pos = climb(pos + 1, nxt)
            lhs = ("op", op, lhs, rhs)
        return lhs, pos
    t, _ = climb(0, 0)
    return t


def eval_tree(t):
    if isinstance(t, tuple) and t and t[0] == "op":
        a = eval_tree(t[2])
        if isinstance(a, batch.Err):
            return a
        if t[1] == "&&" and a is False:
            return False            # documented short-circuit: the right operand is not evaluated
        if t[1] == "||" and a is True:
            return True
        b = eval_tree(t[3])
        if isinstance(b, batch.Err):
            return b
        if t[1] == "**" and abs(b) > 12:
            raise OverflowError()       # not a case for this family (huge powers belong to C14)
        if t[1] == "**" and (b < 0 or (a == 0 and b == 0)):
            return batch.Err()
        if t[1] == "%" and b == 0:
            return batch.Err()
        return py_op(t[1], a, b)
    return t


def typed_ok(t):
    """the flat expression must be well typed under the documented grouping: returns the type or None"""
    if isinstance(t, tuple) and t and t[0] == "op":
        a, b = typed_ok(t[2]), typed_ok(t[3])
        if a is None or b is None:
            return None
        op = t[1]
        if op in OPS_INT:
            if a == "int" and b == "int":
                return "int"
            if op == "^" and a == "bool" and b == "bool":
                return "bool"
            return None
        if op in ("<", ">", "<=", ">="):
            return "bool" if a == b == "int" else None
        if op in ("==", "!="):
            return "bool" if a == b else None
        return "bool" if a == b == "bool" else None
    return "bool" if isinstance(t, bool) else "int"


def precedence_items(ctx):
    """all operator pairs (and sampled triples) with distinguishing operands, written flat"""
    rng = ctx.rng
    items = []
    ops = OPS_INT + OPS_CMP + OPS_BOOL
    combos = list(itertools.product(ops, repeat=2))
    triples = [tuple(rng.choice(ops) for _ in range(3)) for _ in range(ctx.pick(400, 8000))]
    for combo in combos * ctx.pick(2, 6) + triples:
        for _ in range(6):
            toks = []
            for i in range(len(combo) + 1):
                toks.append(rng.choice([2, 3, 5, 7, 1, 0, 4, True, False]))
                if i < len(combo):
                    toks.append(combo[i])
            tree = parse_flat(toks)
            if typed_ok(tree) is None:
                continue
            try:
                val = eval_tree(tree)
            except OverflowError:
                continue
            src = " ".join(("true" if x is True else "false" if x is False else str(x)) for x in toks)
            items.append({"expr": src, "expect": val, "op": "prec:" + " ".join(combo)})
            break
    # unary minus / not against binary operators
    for op in ["**", "*", "+", "-", "%"]:
        for a, b in [(2, 2), (3, 2), (5, 3)]:
            v = py_op(op, -a, b)
            items.append({"expr": f"-{a} {op} {b}", "expect": v, "op": "prec:neg " + op})
    for op in ["&&", "||", "==", "!="]:
        for a, b in [(True, False), (False, True), (False, False), (True, True)]:
            v = py_op(op, not a, b)
            items.append({"expr": f"!{str(a).lower()} {op} {str(b).lower()}", "expect": v, "op": "prec:not " + op})
    return items


def sugar_items(ctx):
    rng = ctx.rng
    items = []
    names = {"+": "add", "-": "sub", "*": "mul", "%": "mod", "|": "bit_or", "&": "bit_and", "^": "bit_xor", "<": "lt", ">": "gt", "<=": "le",
             ">=": "ge", "==": "eq", "!=": "ne", "**": "pow"}
    for op, name in names.items():
        for _ in range(ctx.pick(4, 40)):
            a, b = rng.randint(-9, 9), rng.randint(0, 5)
            if op == "%" and b == 0:
                b = 3
            if op == "**" and a == 0 and b == 0:
                a = 2
            A = f"({a})" if a < 0 else str(a)
            items.append({"expr": f"({A} {op} {b}, {name}({A}, {b}), {A}.{name}({b}))",
                          "expect": "same3", "op": "sugar:" + name})
    for name, a, b in (("and", "true", "false"), ("or", "false", "true")):
        sym = {"and": "&&", "or": "||"}[name]
        items.append({"expr": f"({a} {sym} {b}, {name}({a}, {b}), {a}.{name}({b}))", "expect": "same3", "op": "sugar:" + name})
    for _ in range(ctx.pick(20, 300)):
        xs = [rng.randint(0, 9) for _ in range(rng.randint(1, 5))]
        i = rng.randrange(len(xs))
        L = "[" + ", ".join(map(str, xs)) + "]"
        items.append({"expr": f"({L}[{i}], get({L}, {i}), {L}.get({i}))", "expect": "same3", "op": "sugar:index"})
        items.append({"expr": f'(mapping<int>().set(1, {xs[0]})[1], mapping<int>().set(1, {xs[0]}).get(1), mapping<int>().set(1, {xs[0]})[5, 77], get(mapping<int>().set(1, {xs[0]}), 5, 77))',
                      "expect": (xs[0], xs[0], 77, 77), "op": "sugar:index2"})
    # user overloads of operator names take effect for the sugar
    pre = ("struct V(x: int)\n"
           "fn add(a: V, b: V)->V{V(a::x * 100 + b::x)}\nfn sub(a: V, b: V)->V{V(a::x * 1000 + b::x)}\nfn mul(a: V, b: int)->V{V(a::x * 7 + b)}\n"
           "fn neg(a: V)->V{V(0 - a::x - 1)}\nfn not(a: V)->bool{a::x == 0}\nfn get(a: V, i: int)->int{a::x + i}\nfn get(a: V, i: int, j: int)->int{a::x + i * j}\n"
           "fn eq(a: V, b: V)->bool{a::x == b::x}\nfn lt(a: V, b: V)->bool{a::x < b::x}\nfn bit_or(a: V, b: V)->V{V(a::x + b::x + 5)}\n"
           "fn mod(a: V, b: V)->int{a::x - b::x}\nfn pow(a: V, b: int)->int{a::x + b}\nfn and(a: V, b: V)->int{1}\n")
    for _ in range(ctx.pick(10, 100)):
        a, b = rng.randint(0, 9), rng.randint(0, 9)
        items.append({"decls": pre if not items or "struct V" not in "".join(i.get("decls", "") for i in items) else "",
                      "expr": f"((V({a}) + V({b}))::x, (V({a}) - V({b}))::x, (V({a}) * {b})::x, (-V({a}))::x, !V({a}), V({a})[{b}], V({a})[{b}, 3], V({a}) == V({b}), V({a}) < V({b}), (V({a}) | V({b}))::x, V({a}) % V({b}), V({a}) ** {b}, V({a}) && V({b}), (V({a}) + V({b}) * 2)::x)",
                      "expect": (a * 100 + b, a * 1000 + b, a * 7 + b, -a - 1, a == 0, a + b, a + b * 3, a == b, a < b, a + b + 5, a - b, a + b, 1, a * 100 + (b * 7 + 2)),
                      "op": "sugar:user_overloads", "needs_pre": True})
    return items, pre


# ---- effect probes: every argument is evaluated exactly once, left to right -----------------

def mark(tag, e):
    """textual probe: prints tag when (and each time) e is evaluated; uses only display, ==, if"""
    return f'if(display("{tag}") == "{tag}", {e}, {e})'


PROBES = [
    # (template with {0} {1} .. argument slots, plain args, documented short-circuit? -> expected marks as function of values)
    ("add({0}, {1})", ["1", "2"], None), ("{0} + {1}", ["1", "2"], None), ("{0} - {1} * {2}", ["1", "2", "3"], None),
    ("[{0}, {1}, {2}]", ["1", "2", "3"], None), ("({0}, {1}, {2})", ["1", "true", "'s'"], None),
    ("P({0}, {1})", ["1", "'s'"], None), ("U::i({0})", ["4"], None), ("[1, 2, 3].get({0})", ["1"], None),
    ("[1, 2].push({0})", ["5"], None), ("[1, 2].insert({0}, {1})", ["0", "9"], None), ("[1, 2].set({0}, {1})", ["0", "9"], None),
    ("mapping<int>().set({0}, {1})", ["1", "2"], None), ("set<int>().add({0})", ["1"], None), ("stack().push({0})", ["1"], None),
    ("some({0})", ["1"], None), ("range({0}, {1}, {2})", ["0", "5", "2"], None), ("min({0}, {1})", ["3", "4"], None),
    ("max({0}, {1})", ["3", "4"], None), ("'abc'.substring({0}, {1})", ["0", "2"], None), ("'abc'.find({0}, {1})", ["'b'", "0"], None),
    ("uf({0}, {1})", ["1", "2"], None), ("uf({0})", ["1"], None), ("lam({0}, {1})", ["1", "2"], None), ("gcd({0}, {1})", ["12", "18"], None),
    ("format({0}, {1})", ["5", "'03'"], None), ("zip([{0}], [{1}])", ["1", "2"], None), ("is_close({0}, {1})", ["1.0", "1.0"], None),
    ("if({0}, {1}, {2})", ["true", "1", "2"], "if"), ("if({0}, {1}, {2})", ["false", "1", "2"], "if"),
    ("and({0}, {1})", ["true", "false"], "and"), ("and({0}, {1})", ["false", "true"], "and"),
    ("or({0}, {1})", ["true", "false"], "or"), ("or({0}, {1})", ["false", "true"], "or"),
    ("{0} && {1}", ["false", "true"], "and"), ("{0} || {1}", ["true", "true"], "or"),
    ("then({0}, {1})", ["true", "5"], "then"), ("then({0}, {1})", ["false", "5"], "then"),
    ("if_error({0}, {1})", ["1", "2"], "if_error"), ("if_error({0}, {1})", ["error('e')", "2"], "if_error"),
    ("mapping<int>().set(1, 2).get({0}, {1})", ["1", "9"], "mget"), ("mapping<int>().set(1, 2).get({0}, {1})", ["3", "9"], "mget"),
    ("or(some({0}), {1})", ["1", "2"], "opt_or_some"), ("or(none(), {1})", ["1", "2"], "opt_or_none"),
    ("some(3).map_or((x: int)->{{x}}, {0})", ["7"], "map_or_some"), ("none().map_or((x: int)->{{x}}, {0})", ["7"], "map_or_none"),
]


# relational operators on every operand type that has them: both operands once, left to right; for a user type the operator goes through cmp(a, b)
for _op in ("<", ">", "<=", ">=", "==", "!="):
    for _a, _b in (("2.5", "1.5"), ("'b'", "'a'"), ("true", "false"), ("(1, 'a')", "(1, 'b')"), ("[1, 2]", "[1, 3]"), ("3", "2"), ("(2.5, [1])", "(2.5, [0])")):
        PROBES.append(("{0} " + _op + " {1}", [_a, _b], None))
        PROBES.append(("{0} " + _op + " {1}", [_b, _a], None))
        PROBES.append(("{0} " + _op + " {1}", [_a, _a], None))
for _fn in ("lt", "gt", "le", "ge", "eq", "ne", "cmp", "min", "max"):
    for _a, _b in (("2.5", "1.5"), ("'b'", "'a'"), ("[1, 2]", "[1, 3]")):
        PROBES.append((_fn + "({0}, {1})", [_a, _b], None))
for _op in ("<", ">", "<=", ">="):
    for _a, _b in (("3", "2"), ("2", "3"), ("4", "4")):
        PROBES.append(("V({0}) " + _op + " V({1})", [_a, _b], "vcmp"))
        PROBES.append(("W({0}) " + _op + " W({1})", [_a, _b], "wcmp"))


def expected_marks(kind, args):
    n = len(args)
    allm = [str(i) for i in range(n)]
    if kind is None:
        return allm
    if kind in ("vcmp", "wcmp"):
        return allm + [f"cmp {args[0]} {args[1]}"] * 2          # once for r, once for the plain twin q
    if kind == "if":
        return ["0", "1"] if args[0] == "true" else ["0", "2"]
    if kind == "and":
        return ["0", "1"] if args[0] == "true" else ["0"]
    if kind == "or":
        return ["0"] if args[0] == "true" else ["0", "1"]
    if kind == "then":
        return ["0", "1"] if args[0] == "true" else ["0"]
    if kind == "if_error":
        return ["0"] if not args[0].startswith("error") else ["0", "1"]
    if kind == "mget":
        return ["0"] if args[0] == "1" else ["0", "1"]
    if kind == "opt_or_some":
        return ["0"]
    if kind == "opt_or_none":
        return ["1"]
    if kind == "map_or_some":
        return []
    if kind == "map_or_none":
        return ["0"]
    raise ValueError(kind)


def probe_cases(ctx):
    pre = ("struct P(a: int, b: str)\nunion U(i: int, s: str)\nfn uf(a: int, b: int ?= 5)->int{a * 10 + b}\nlet lam = (a: int, b: int)->{a - b};\n"
           "struct V(n: int)\nfn cmp(a: V, b: V)->int{ if(display(f\"cmp {a::n} {b::n}\") == \"\", 0, cmp(a::n, b::n)) }\n"
           # a comparison that is not antisymmetric on ties: the operator must still be computed from cmp(a, b), not from cmp(b, a)
           "struct W(n: int)\nfn cmp(a: W, b: W)->int{ if(display(f\"cmp {a::n} {b::n}\") == \"\", 0, if(a::n >= b::n, 1, 0 - 1)) }\n")
    cases = []
    for k, (tmpl, args, kind) in enumerate(PROBES):
        marked = [mark(str(i), a) for i, a in enumerate(args)]
        expr = tmpl.format(*marked)
        plain = tmpl.format(*args)
        cases.append({"id": f"C02-probe{k}", "source": pre + f"let r = {expr};\nlet q = {plain};\n", "exports": ["r", "q"],
                      "dump": {"per": 32, "nodes": 500}, "meta": {"kind": "probe", "tmpl": tmpl, "args": args, "short": kind,
                                                                 "expect_marks": expected_marks(kind, args)}})
    return cases


def run(ctx):
    ctx.canary()
    total = ok = 0
    distinct = set()
    shapes = {}
    # ---- 1. generated programs vs the reference evaluator
    pcases = program_cases(ctx, ctx.pick(1500, 40000))
    models = [c.pop("_model") for c in pcases]
    pobs = ctx.run(pcases, name="C02_prog")
    accepted = rejected = bindings_cmp = lines_cmp = 0
    rej_classes = {}
    for c, (res, m, m2), o in zip(pcases, models, pobs):
        total += 1
        distinct.add(c["source"])
        fail = batch.program_failure(o)
        if fail is not None:
            if fail["kind"] == "inconclusive":
                ctx.verdicts.inconclusive_case(str(fail), c)
                continue
            if fail["kind"] == "rejected":
                rejected += 1
                rej_classes[fail.get("class")] = rej_classes.get(fail.get("class"), 0) + 1
                # the generator only emits programs that are well typed under the documented rules
                ctx.verdicts.violation(f"program|rejected:{fail.get('class')}", c, {"expected": "accepted (well typed by construction)", "observed": fail})
                continue
            sig = "program|" + fail["kind"] + (":" + core.panic_sig(fail.get("panic")) if fail["kind"] == "panic" else ":" + str(fail.get("violation")))
            ctx.verdicts.violation(sig, c, {"expected": "runs to completion", "observed": fail})
            continue
        accepted += 1
        good = True
        for name, v in res.items():
            bindings_cmp += 1
            out = batch.binding_outcome(o["bindings"].get(name))
            exp = value_to_model(v)
            if not batch.matches(exp, out):
                good = False
                ctx.verdicts.violation("program|binding_differs|" + ("error_expected" if is_err(v) else "value_expected" if out["kind"] == "error" else out["kind"]),
                                       c, {"binding": name, "expected": repr(exp)[:300], "observed": {k: out.get(k) for k in ("kind", "raw", "panic")}})
                break
        want_out = "".join(l + "\n" for l in m.out)
        alt_out = "".join(l + "\n" for l in m2.out)     # builtins that stop evaluating arguments at the first error
        lines_cmp += len(m.out)
        got_lines = [l for l in (o.get("output") or "").split("\n")][:-1]
        # after an argument that is an error, the remaining arguments may or may not be evaluated (per builtin):
        # the output must contain the lines of the "stop at the first error" run and be contained in the strict run
        if good and (o.get("output") or "") not in (want_out, alt_out) and not (is_subseq(m2.out, got_lines) and is_subseq(got_lines, m.out)):
            good = False
            ctx.verdicts.violation("program|output_differs", c, {"expected": want_out[:600], "observed": {"output": (o.get("output") or "")[:600]}})
        ok += good
    # ---- 2. precedence / associativity, sugar
    items = precedence_items(ctx)
    sug, pre = sugar_items(ctx)
    outs, cases = batch.run_items(ctx, items, per_program=40, name="C02_prec")
    for it, out, case in zip(items, outs, cases):
        total += 1
        distinct.add(it["expr"])
        shapes[it["op"]] = shapes.get(it["op"], 0) + 1
        if out["kind"] == "inconclusive":
            ctx.verdicts.inconclusive_case(str(out), case)
            continue
        if batch.matches(it["expect"], out):
            ok += 1
        else:
            ctx.verdicts.violation(it["op"].split(" ")[0] + "|" + it["op"], batch.solo_case(ctx, it),
                                   {"expr": it["expr"], "expected": repr(it["expect"]), "observed": {k: out.get(k) for k in ("kind", "raw", "err", "class")}})
    for it in sug:
        it.pop("decls", None)
    outs, cases = batch.run_items(ctx, sug, prelude=pre, per_program=25, name="C02_sugar")
    for it, out, case in zip(sug, outs, cases):
        total += 1
        distinct.add(it["expr"])
        if out["kind"] == "inconclusive":
            ctx.verdicts.inconclusive_case(str(out), case)
            continue
        if it["expect"] == "same3":
            good = out["kind"] == "value" and out["dump"][0] == "t" and len(set(map(repr, out["dump"][1]))) == 1
        else:
            good = batch.matches(it["expect"], out)
        if good:
            ok += 1
        else:
            ctx.verdicts.violation(it["op"], batch.solo_case(ctx, it, prelude=pre),
                                   {"expr": it["expr"], "expected": repr(it["expect"]), "observed": {k: out.get(k) for k in ("kind", "raw", "err", "class")}})
    # ---- 2b. a comparison chain inside an argument list
    amb = [{"expr": "if(x < y, y > 0, true)", "expect": True, "op": "grammar:lt_gt_in_argument_list"},
           {"expr": "[x < y, y > x]", "expect": [True, True], "op": "grammar:lt_gt_in_argument_list"},
           {"expr": "(x < y, 1, y > 2)", "expect": (True, 1, False), "op": "grammar:lt_gt_in_argument_list"},
           {"expr": "if((x < y), y > 0, true)", "expect": True, "op": "grammar:parenthesised_control"}]
    outs, cases = batch.run_items(ctx, amb, prelude="let x = 1; let y = 2;", per_program=1, name="C02_amb")
    for it, out, case in zip(amb, outs, cases):
        total += 1
        distinct.add(it["expr"])
        if batch.matches(it["expect"], out):
            ok += 1
        elif out["kind"] != "inconclusive":
            ctx.verdicts.violation(it["op"] + "|" + out["kind"], batch.solo_case(ctx, it, prelude="let x = 1; let y = 2;"),
                                   {"expr": it["expr"], "expected": repr(it["expect"]), "observed": {k: out.get(k) for k in ("kind", "raw", "err", "class")}})
    # ---- 3. effect probes
    prcases = probe_cases(ctx)
    probs = ctx.run(prcases, name="C02_probe")
    probes_ok = 0
    for c, o in zip(prcases, probs):
        total += 1
        distinct.add(c["source"])
        meta = c["meta"]
        fail = batch.program_failure(o)
        if fail is not None:
            if fail["kind"] == "inconclusive":
                ctx.verdicts.inconclusive_case(str(fail), c)
                continue
            ctx.verdicts.violation(f"probe|{meta['tmpl']}|{fail['kind']}", c, {"expected": meta, "observed": fail})
            continue
        marks = [l for l in (o.get("output") or "").split("\n") if l != ""]
        r, q = batch.binding_outcome(o["bindings"].get("r")), batch.binding_outcome(o["bindings"].get("q"))
        if marks == meta["expect_marks"] and r.get("dump") == q.get("dump"):
            probes_ok += 1
            ok += 1
        else:
            ctx.verdicts.violation(f"probe|{meta['tmpl']}|{'marks' if marks != meta['expect_marks'] else 'value'}", c,
                                   {"expected": meta, "observed": {"marks": marks, "r": r.get("raw"), "q": q.get("raw")}})
    samples = [{"program": pcases[0]["source"][:1500], "model_output": models[0][1].out[:10]},
               {"flat_expression": items[0]["expr"], "expected": repr(items[0]["expect"])},
               {"probe": prcases[0]["source"], "expected_marks": prcases[0]["meta"]["expect_marks"]}]
    cov = {"evaluations": total, "distinct_nontrivial": len(distinct),
           "rule": "one evaluation = one generated core program (all bindings and the output compared with the reference evaluator), "
                   "one flat operator expression (value under the documented grouping), one sugar-equivalence tuple, or one effect probe; "
                   "distinct = distinct source texts",
           "samples": samples, "agreeing": ok, "programs": len(pcases), "programs_accepted": accepted, "programs_rejected": rejected,
           "rejection_classes": rej_classes, "bindings_compared": bindings_cmp, "output_lines_compared": lines_cmp,
           "operator_combinations": len(shapes), "effect_probes": len(prcases), "effect_probes_ok": probes_ok}
    broken = None
    if accepted < 0.8 * max(1, len(pcases)):
        broken = f"only {accepted}/{len(pcases)} generated programs were accepted"
    return {"coverage": cov, "broken": broken, "assumptions": [
        "numeric domain: exact small ints (big ones: C14), no floats in generated programs (C13/C14 cover them)",
        "output is compared for display of int, bool, str only", "closures are not compared as values",
        "after an argument that is an error, later arguments may or may not be evaluated (natives stop at the first error)"]}


def replay(ctx, rec):
    case = dict(rec["case"])
    obs = ctx.run([case], name="C02_replay")[0]
    print(case["source"])
    print("expected:", str(rec["detail"].get("expected"))[:1000])
    print("observed now:", {k: obs.get(k) for k in ("output",)}, {n: b.get("dump") for n, b in (obs.get("bindings") or {}).items()})
    was = rec["detail"]["observed"]
    fail = batch.program_failure(obs)
    if fail is not None and fail.get("kind") == was.get("kind"):
        print(f"VIOLATION property={ctx.prop} replay=<replayed: same failure kind>")
        return 1
    if "output" in was and (obs.get("output") or "")[:600] == was["output"]:
        print(f"VIOLATION property={ctx.prop} replay=<replayed: same output>")
        return 1
    b = rec["detail"].get("binding") or "r0"
    now = batch.binding_outcome((obs.get("bindings") or {}).get(b))
    if was.get("raw") is not None and now.get("raw") == was.get("raw"):
        print(f"VIOLATION property={ctx.prop} replay=<replayed: same value>")
        return 1
    print("replay: not reproduced")
    return 0
