"""C13 Floats are always finite.
Oracle: the predicate itself - a finite-float walker over every exported value (model-free)."""
import math

from .. import batch, core, surface

LEVEL = "exploration"

EDGE_FLOATS = [0.0, -0.0, 5e-324, -5e-324, 2.2250738585072014e-308, 1.0, -1.0, 1.0 + 2 ** -52, 1.0 - 2 ** -53, 0.5, -0.5, 2.0, 10.0,
               1e-300, 1e300, -1e300, 1e308, -1e308, 1.7976931348623157e308, -1.7976931348623157e308, 9007199254740993.0,
               math.pi, math.pi / 2, -math.pi / 2, math.e, 709.0, 710.0, -745.0, 170.0, 171.7, 1e16, 1e154, 1.3407807929942597e154, 1e-160]
EDGE_INTS = [0, 1, -1, 2, -2, 3, 10, 100, 170, 171, 1000, 1023, 1024, 1025, -1024, 1 << 53, (1 << 53) + 1, 1 << 63, 1 << 64, 10 ** 308, 10 ** 309,
             -(10 ** 309), 10 ** 400, (1 << 1024) - 1, 1 << 1024]
DYNAMIC_CALLS = ["mean({S})", "geo_mean({S})", "harmonic_mean({S})", "sum({S})", "product({S})", "median({S})", "max({S})", "min({S})",
                 "mean({G})", "geo_mean({G})", "harmonic_mean({G})", "sum({G})", "product({G})", "{S}.sum(0.0)", "{S}.product(1.0)",
                 "{S}.sort()", "{S}.n_largest(2)", "{S}.rank_avg({F})", "({F}, {F}).to_str()", "[{F}, {F}].to_str()", "some({F}).to_str()",
                 "{F}.to_str()", "format({F}, \"e\")", "format({F}, \".3\")", "{F} + {I}", "{I} + {F}", "{F} * {I}", "{I} * {F}", "{F} / {I}", "{I} / {F}",
                 "{F} - {I}", "{I} - {F}", "{I} ** {F}", "{F} ** {I}", "{F} ** {F}", "{F} / {F}", "{F} * {F}", "{F} + {F}", "{F} - {F}", "{F} % {F}", "-{F}",
                 "{I} / {I}", "to_float({I})", "fraction({F}).members()", "complex({F}) * complex({F})", "complex({F}) / complex({F})",
                 "complex({F}) ** {F}", "complex({F}).ln()", "json({F}).serialize()", "json_deserialize({F}.to_str())", "{S}.mean() * {F}",
                 "linear_regression_least_squares({G}, {G})", "{S}.map((x: float)->{{x * {F}}})", "{G}.aggregate((a: float, b: float)->{{a * b}}).to_array()",
                 "sample_variance([{I}, {I}, {I}])", "sample_standard_deviation([{I}, {I}, {I}])", "pearson_correlation([({F}, {F}), ({F}, {F}), ({F}, {F})])",
                 "covariance([({F}, {F}), ({F}, {F})].to_generator())", "days({F}).seconds()", "seconds({F}).years()", "Duration({F}) * {F}", "Duration({F}) / {F}",
                 "datetime({F}).unix()", "unix(datetime({F}) + days({F}))", "is_close({F}, {F})", "floor({F})", "ceil({F})", "trunc({F})"]
LITERALS = ["1e308", "1e309", "1e999", "-1e999", "1e-999", "0.0", "1.7976931348623157e308", "1.7976931348623159e308", "2e308", "1" + "0" * 400 + ".0",
            "1" + "0" * 400, "0." + "0" * 400 + "1", "9" * 309 + ".9", "1e+308", "1E308", "1_0e3_07", "123456789e300", "0x7ff0000000000000", "4e-324", "2e-324",
            "1.0e400 / 1.0e400", "1.0 / 3.0e-310"]
JSON_TEXTS = ["1e400", "-1e400", "[1e999]", '{"a": 1e309}', "1e308", "1.7976931348623157e308", "1.7976931348623159e308", "123456789012345678901234567890",
              "1" + "0" * 400, "-0.0", "5e-324", "1e-400", "[1e308, 1e308]", "0.1e309", "10e307", "2e308"]


def nonfinite_nodes(raw):
    bad = []

    def f(n):
        if n[0] == "f":
            bits = int(n[1], 16)
            if (bits >> 52) & 0x7ff == 0x7ff:
                bad.append(n[2] if len(n) > 2 else n[1])
    core.walk_dump(raw, f)
    return bad


def gen_items(ctx):
    rng = ctx.rng
    overloads, dynamic, types, bad = surface.load(ctx)
    if bad:
        raise core.Broken(f"unparsed signatures: {bad[:3]}")
    pools = surface.Pools(EDGE_INTS, [x for x in EDGE_FLOATS], ["", "a", "1e999", "inf", "nan", "1.5"])
    inh = surface.Inhabiter(overloads, rng, pools)
    targets = [o for o in overloads if (o.ret.mentions("float") or o.ret.mentions("Complex") or o.ret.mentions("Duration") or o.ret.mentions("Datetime")
                                        or o.ret.mentions("LinearRegression") or o.ret.mentions("JSON") or any(p.mentions("float") for p in o.params))
               and not o.name.startswith("__") and o.name not in ("sleep", "random", "sample", "now")]
    items = []
    per = ctx.pick(30, 700)
    for o in targets:
        made = 0
        for _ in range(per * 3):
            if made >= per:
                break
            c = inh.call(o, depth=2)
            if c is None:
                continue
            made += 1
            items.append({"expr": c, "op": f"{o.name}{o.sig}", "fam": "overload"})
    F = lambda: surface.flit(rng.choice(EDGE_FLOATS))
    I = lambda: surface.ilit(rng.choice(EDGE_INTS))
    for tmpl in DYNAMIC_CALLS:
        for _ in range(ctx.pick(25, 500)):
            e = tmpl
            while "{F}" in e:
                e = e.replace("{F}", F(), 1)
            while "{I}" in e:
                e = e.replace("{I}", I(), 1)
            n = rng.choice([1, 2, 3, 5])
            S = "[" + ", ".join(F() for _ in range(n)) + "]"
            e = e.replace("{S}", S).replace("{G}", S + ".to_generator()")
            items.append({"expr": e, "op": tmpl, "fam": "template"})
    for l in LITERALS:
        items.append({"expr": l, "op": "literal:" + l[:24], "fam": "literal"})
        items.append({"expr": f"({l}) * 1.0", "op": "literal_arith:" + l[:24], "fam": "literal"})
        items.append({"expr": f"[{l}]", "op": "literal_in_seq:" + l[:24], "fam": "literal"})
    for t in JSON_TEXTS:
        items.append({"expr": f'json_deserialize("{t}")', "op": "json:" + t[:24], "fam": "json"})
        items.append({"expr": f'json_deserialize("{t}")!:number * 10.0', "op": "json_number:" + t[:24], "fam": "json"})
    for s in ["1e999", "inf", "nan", "-inf", "NaN", "infinity", "1e308", "1.8e308"]:
        items.append({"expr": f'"{s}".to_int()', "op": "str_to_int:" + s, "fam": "text"})
    rng.shuffle(items)
    return items, len(targets), len(overloads)


def run(ctx):
    ctx.canary()
    items, n_targets, n_over = gen_items(ctx)
    outs, cases = batch.run_items(ctx, items, per_program=20, dump={"per": 40, "nodes": 3000})
    kinds = {}
    checked = nonfinite = rejected = 0
    crashes = {}
    covered = set()
    distinct = set()
    for it, out, case in zip(items, outs, cases):
        distinct.add(it["expr"])
        kinds[out["kind"]] = kinds.get(out["kind"], 0) + 1
        if out["kind"] == "inconclusive":
            ctx.verdicts.inconclusive_case(str(out.get("detail")), case)
            continue
        if out["kind"] == "rejected":
            rejected += 1       # the generator produced an ill-typed call: not an execution
            continue
        if out["kind"] in ("value", "error"):
            checked += 1
            if it["fam"] == "overload":
                covered.add(it["op"])
            bad = nonfinite_nodes(out.get("raw"))
            if bad:
                nonfinite += 1
                ctx.verdicts.violation(f"nonfinite|{it['op'][:70]}", batch.solo_case(ctx, it, dump={"per": 40, "nodes": 3000}),
                                       {"expr": it["expr"], "expected": "no NaN / inf anywhere in the value", "observed": {"kind": out["kind"], "raw": out.get("raw"), "nonfinite": bad[:5]}})
            continue
        if out["kind"] in ("panic", "died", "timeout"):
            # a crash is not an observed float: it is counted here and decided by C01 (same surface, under limits)
            crashes[it["op"][:60] + "|" + (core.panic_sig(out.get("panic")) if out["kind"] == "panic" else out["kind"])] = it["expr"][:200]
    samples = [{"expr": it["expr"][:200], "observed": o.get("raw")} for it, o in list(zip(items, outs))[:5]]
    cov = {"evaluations": len(items), "distinct_nontrivial": len({it["expr"] for it, o in zip(items, outs) if o["kind"] in ("value", "error")}),
           "rule": "one evaluation = one generated call / literal evaluated by the interpreter; non-trivial = accepted by the compiler and evaluated to a "
                   "value or an error value, whose every float node was then checked for NaN/inf; distinct = distinct expression texts",
           "samples": samples, "values_checked": checked, "nonfinite_values": nonfinite, "rejected_by_compiler": rejected,
           "outcome_kinds": kinds, "float_related_overloads": n_targets, "float_related_overloads_reached": len(covered),
           "overloads_in_surface_table": n_over,
           "crashes_seen_not_decided_here": crashes}
    return {"coverage": cov, "broken": None if checked > 100 else "too few values checked",
            "assumptions": ["a float is observed through the dump hook (bit pattern); elements beyond 40 per container are not forced"]}


def replay(ctx, rec):
    case = rec["case"]
    obs = ctx.run([case], name="C13_replay")[0]
    fail = batch.program_failure(obs)
    out = fail if fail is not None else batch.binding_outcome(obs.get("bindings", {}).get("r0"))
    print("expr:", rec["detail"]["expr"])
    print("observed:", {k: out.get(k) for k in ("kind", "raw", "panic", "err")})
    if out.get("raw") and nonfinite_nodes(out["raw"]):
        print(f"VIOLATION property={ctx.prop} replay=<replayed>")
        return 1
    print("replay: no violation reproduced")
    return 0
