"""C12 Compilation is total, effect-free and deterministic.
Monitors: panic hook + catch_unwind around feed_file and around rendering the error, per-case
watchdog, the recording doubles / hook counters before any runtime exists, and self-consistency of
the outcome across repetitions in one process, across processes and across limit configurations."""
import glob
import os
import random
import re

from .. import batch, core
from ..coregen import Gen

LEVEL = "exploration"

TOKENS = ["let ", "fn ", "forward fn ", "struct ", "union ", "type ", "->", "=", ";", ":", ",", "(", ")", "{", "}", "[", "]", "<", ">", "::", "?:", "!:", "?=",
          "+", "-", "*", "/", "%", "**", "&&", "||", "==", "!=", "<=", ">=", "&", "|", "^", "!", ".", "$", "#", "\"", "'", "f\"", "r\"", "\\", "//", "/*", "*/",
          "x", "y", "f", "g", "T", "int", "float", "str", "bool", "Sequence", "Optional", "Generator", "Mapping", "item0", "item1", "item01", "item1x",
          "true", "false", "if", "display", "error", "none", "some", "0", "1", "12", "1.5", "1e3", "0x1f", "0b101", "1_000", "é", "😀", " ", "\n", "\t"]
NUMERIC = ["0", "00", "1", "-1", "1_", "_1", "1__0", "0x", "0xg", "0xFF", "0xff_", "0b", "0b2", "0b1_0", "1.", ".5", "1.5.2", "1e", "1e+5", "1e-5", "1E5", "1e5e5",
           "1e308", "1e309", "1e999", "9" * 40, "9" * 80, "0x" + "f" * 31, "0x" + "f" * 32, "0x" + "f" * 33, "0x" + "f" * 80, "0b" + "1" * 127, "0b" + "1" * 128,
           "0b" + "1" * 200, "170141183460469231731687303715884105727", "170141183460469231731687303715884105728", "1" + "0" * 400, "1." + "0" * 400 + "1",
           "0." + "0" * 400 + "1e400", "1_000_000", "1e1_0", "0x1e5", "0b1e1", "1.0e0", "1e-999", "12345678901234567890.12345678901234567890"]
IDENTS = ["_", "_1", "__", "item", "item0", "item1", "item00", "item01", "item1x", "item_1", "Item1", "item" + "9" * 30, "item99999999999999999999", "item18446744073709551616",
          "x" * 300, "iff", "let1", "fnx", "truex", "r", "f", "rx", "fx", "é", "x-y", "1x", "x1", "struct1"]
STRINGS = ['""', "''", '"a"', "'a'", '"\\n\\t\\\\\\"\\\'\\0"', '"\\u{41}"', '"\\u{1F600}"', '"\\u{110000}"', '"\\u{d800}"', '"\\u{}"', '"\\u{1234567}"', '"\\q"', '"\\"', '#"a"#',
           '##"a"#"##', '#"a"', '"a"#', "#'x'#", 'r"\\n"', "r'\\'", 'r#"a"b"#', 'f"{1}"', 'f"{1:03}"', 'f"{{}}"', 'f"{"', 'f"}"', 'f"{}"', 'f"{1:}"', 'f"{1 + 2}"', "f'{\"a\"}'",
           'f"{f"{1}"}"', '"unterminated', "'unterminated", '"é😀"', 'f"{1:{2}}"', 'f#"{1}"#', '"\\u{0041}"', '"\\u{ 41}"']


def load_corpus():
    texts = []
    for p in sorted(glob.glob("/repo/test_scripts/*.xr")):
        try:
            texts.append(open(p, encoding="utf8").read())
        except OSError:
            pass
    for p in sorted(glob.glob("/repo/book/src/**/*.md", recursive=True)):
        try:
            md = open(p, encoding="utf8").read()
        except OSError:
            continue
        for m in re.finditer(r"```xray[^\n]*\n(.*?)```", md, re.S):
            texts.append(m.group(1))
    return texts


def mutate(rng, text):
    k = rng.random()
    if not text:
        return text
    if k < 0.25:        # delete a span
        i = rng.randrange(len(text))
        return text[:i] + text[i + rng.randint(1, 12):]
    if k < 0.45:        # insert tokens
        i = rng.randrange(len(text))
        return text[:i] + "".join(rng.choice(TOKENS) for _ in range(rng.randint(1, 4))) + text[i:]
    if k < 0.6:         # swap two characters / duplicate a span
        i, j = rng.randrange(len(text)), rng.randrange(len(text))
        a, b = min(i, j), max(i, j)
        return text[:a] + text[a:b] * 2 + text[b:]
    if k < 0.75:        # replace a number / identifier / string
        pool = rng.choice([NUMERIC, IDENTS, STRINGS])
        toks = list(re.finditer(r"[A-Za-z_][A-Za-z_0-9]*|\d+(\.\d+)?|\"[^\"\n]*\"", text))
        if toks:
            m = rng.choice(toks)
            return text[:m.start()] + rng.choice(pool) + text[m.end():]
        return text
    if k < 0.9:         # splice with another position of the same text
        i, j = rng.randrange(len(text)), rng.randrange(len(text))
        return text[:i] + text[j:]
    return text.replace(rng.choice(["(", ")", "{", "}", ";", ","]), rng.choice(["", "(", ")", "{", "}", ";"]), rng.randint(1, 3))


def gen_texts(ctx):
    rng = ctx.rng
    corpus = load_corpus()
    texts = []
    fam = []

    def add(t, f):
        if len(t.encode("utf8")) <= 6000:
            texts.append(t)
            fam.append(f)
    for t in corpus[:ctx.pick(150, 10 ** 6)]:
        add(t, "corpus")
    for _ in range(ctx.pick(2500, 60000)):
        t = rng.choice(corpus)
        for _ in range(rng.randint(1, 3)):
            t = mutate(rng, t)
        add(t, "mutant")
    for _ in range(ctx.pick(1500, 40000)):
        add("".join(rng.choice(TOKENS) for _ in range(rng.randint(1, 60))), "soup")
    for n in NUMERIC:
        add(f"let x = {n};", "numeric")
        add(f"let x = -{n};", "numeric")
        add(f"let x = [{n}, {n}];", "numeric")
        add(f"fn f(a: int ?= {n})->int{{a}}", "numeric")
    for i in IDENTS:
        add(f"let {i} = 1;", "ident")
        add(f"let t = (1, 2); let v = t::{i};", "ident")
        add(f"fn {i}({i}: int)->int{{{i}}}", "ident")
        add(f"struct {i}({i}: int)", "ident")
    for s in STRINGS:
        add(f"let s = {s};", "string")
        add(f"let s = [{s}].len();", "string")
    for depth in ctx.pick([1, 8, 32, 64], [1, 2, 4, 8, 16, 32, 48, 64, 65, 100]):
        for o, c in (("(", ")"), ("[", "]")):
            add("let x = " + o * depth + "1" + c * depth + ";", "nesting")
            add("let x = " + o * depth + "1" + c * (depth - 1) + ";", "nesting")
        add("let x = " + "if(true, " * depth + "1" + ", 0)" * depth + ";", "nesting")
        add("let x = " + "-" * depth + "1;", "nesting")
        add("let x = " + "!" * depth + "true;", "nesting")
        add("fn f()->int{" * depth + "1" + "}" * depth, "nesting")
        add("let x = " + "[" * depth + "]" * depth + ";", "nesting")
        add("let x: " + "Sequence<" * depth + "int" + ">" * depth + " = [];", "nesting")
        add("let x = 1" + " + 1" * (depth * 8) + ";", "nesting")
        add("let x = f" + "(1)" * depth + ";", "nesting")
        add("let x = " + "(" * depth + "1" + ",)" * depth + ";", "nesting")                 # nested one-element tuples
        add("let x = " + "(" * depth + "1" + ", 2)" * depth + ";", "nesting")
        add("let x = " + "(1, " * depth + "2" + ")" * depth + ";", "nesting")
        add("let x = " + "()->{" * depth + "1" + "}" * depth + ";", "nesting")
        add("let x = " + "[(" * depth + "1" + ",)]" * depth + ";", "nesting")
        add("let x: " + "(" * depth + "int" + ")" * depth + " = 1;", "nesting")
        add("let x: " + "()->(" * depth + "int" + ")" * depth + " = 1;", "nesting")
        add("let x = " + "some(" * depth + "1" + ")" * depth + ";", "nesting")
        add("let x = 1" + ".add(1)" * depth + ";", "nesting")
        add("let x = " + "f{int}" + "{int}" * (depth // 8) + "(1);", "nesting")
    # turbofish / dynamic specialisations with auto types in and out of range
    for name, nargs in (("add", 2), ("len", 1), ("foo_", 1), ("if", 3), ("map", 2), ("get", 2), ("to_str", 1)):
        for spec in ("$", "int", "$, $", "int, $", "$, int", "$, $, $", "int, $, $, $", "Sequence<$>", "$, Sequence<$>", "Optional<$>, $", "($, $)", "($)->($)", "", "$,", "int int"):
            for k in range(0, nargs + 2):
                args = ", ".join(["1", "'a'", "[1]", "2.0"][:k])
                add(f"fn foo_(x: Sequence<int>)->int{{ x.len() }}\nlet x = {name}{{{spec}}}({args});", "specialization")
                add(f"let f = {name}{{{spec}}};", "specialization")
            add(f"let x = {name}<{spec}>(1);", "specialization")
    # several unfulfilled forward declarations: the message must not depend on hash order
    for n in (2, 3, 5):
        fw = "".join(f"forward fn fw{i}_(x: int)->int;\n" for i in range(n))
        body = " + ".join(f"fw{i}_(x)" for i in range(n))
        add(fw + f"fn user_(x: int)->int{{ {body} }}\nlet r = user_(1);\n" + "".join(f"fn fw{i}_(x: int)->int{{ x }}\n" for i in range(n)), "forward")
        add(fw + f"fn user_(x: int)->int{{ {body} }}\nfn fw0_(x: int)->int{{ x }}\nlet r = user_(1);", "forward")
        add(fw + f"fn fw0_(x: int)->int{{ {body.replace('fw0_(x)', '1')} }}\nlet r = fw0_(1);", "forward")
    for _ in range(ctx.pick(150, 3000)):
        g = Gen(rng, effects=True, errors=True, max_depth=rng.choice([3, 4, 5]))
        add(g.program(rng.randint(2, 10)).src(rng), "generated")
    # texts whose rendering involves maps of overloads / types
    for t in ["struct P<A, B>(a: A, b: B)\nlet x = [P(1, 'a')].sort();", "let x = foo(1, 'a', [2.0]);", "let x = add(1, 'a');", "let x = [1, 'a'];",
              "let x = mapping<int>().set('a', 1);", "fn f<T, U>(a: T, b: U)->T{a}\nlet x = f(1);", "let x = zip(1, 2);", "let x = json(1, 2, 3);",
              "struct S(a: int)\nlet x = S(1) + S(2);", "let x = sum(['a']);", "let x = cast<int>('a');", "let x = partial(1);"]:
        add(t, "error_rendering")
    return texts, fam


def compile_sig(o):
    c = o.get("compile") or {}
    if c.get("panic"):
        return ("panic", core.panic_sig(c["panic"]))
    return (bool(c.get("ok")), c.get("err"))


def run(ctx):
    ctx.canary()
    rng = ctx.rng
    texts, fam = gen_texts(ctx)
    cases = [{"id": f"C12-{i}", "source": t, "compile_only": True, "compile_repeat": 1, "timeout_ms": 15000, "meta": {"fam": f}} for i, (t, f) in enumerate(zip(texts, fam))]
    obs1 = ctx.run(cases, name="C12_a", case_timeout_ms=15000)
    # a second pass in other processes, in another order (other compilations before each text)
    order = list(range(len(cases)))
    random.Random(ctx.seed + 99).shuffle(order)
    obs2s = ctx.run([dict(cases[i], limits={"size": 10 ** 9, "ud_call": 10 ** 6}) for i in order], name="C12_b", case_timeout_ms=15000)
    obs2 = [None] * len(cases)
    for k, i in enumerate(order):
        obs2[i] = obs2s[k]
    total = ok = accepted = 0
    classes, panics = {}, {}
    det_cmp = 0
    exec_cases = []
    for c, o1, o2 in zip(cases, obs1, obs2):
        total += 1
        f = c["meta"]["fam"]
        bad = False
        for o in (o1, o2):
            if o.get("timeout") or o.get("died") or o.get("harness_error"):
                if o.get("confirmed"):
                    ctx.verdicts.violation(f"compile|{'does_not_terminate' if o.get('timeout') else 'process_died'}|{f}", c, {"expected": "success or a compilation error", "observed": {k: o.get(k) for k in ("timeout", "died", "rc", "stderr")}})
                else:
                    ctx.verdicts.inconclusive_case("worker died/timed out once", c)
                bad = True
                break
        if bad:
            continue
        comp = o1["compile"]
        if comp.get("panic"):
            sig = core.panic_sig(comp["panic"])
            panics[sig] = panics.get(sig, 0) + 1
            ctx.verdicts.violation(f"compile|panic|{sig}", c, {"expected": "success or a compilation error", "observed": comp["panic"]})
            continue
        # effect freedom: nothing was touched / counted before a runtime exists
        pre = comp.get("pre_runtime", {})
        touched = {**pre.get("prelude", {}), **pre.get("after_feed", {})}
        if touched:
            ctx.verdicts.violation(f"compile|effects_before_runtime|{sorted(touched)}", c, {"expected": "no touch of writer/clock/rng, no evaluation event", "observed": pre})
            continue
        if comp.get("ok"):
            accepted += 1
        else:
            classes[comp.get("class")] = classes.get(comp.get("class"), 0) + 1
            if not comp.get("err"):
                ctx.verdicts.violation("compile|error_without_message", c, {"expected": "a rendered message", "observed": comp})
                continue
        # determinism: repetition in the same process, other process / other history / other limits
        s1 = compile_sig(o1)
        variants = [("other_process", compile_sig(o2))]
        for r in comp.get("repeats", []):
            variants.append(("same_process", ("panic", "?") if r.get("panic") else (bool(r.get("ok")), r.get("err"))))
        for r in (o2["compile"].get("repeats") or []):
            variants.append(("other_process_repeat", ("panic", "?") if r.get("panic") else (bool(r.get("ok")), r.get("err"))))
        good = True
        for label, s in variants:
            det_cmp += 1
            if s != s1:
                good = False
                what = "acceptance" if s[0] != s1[0] else "error_text"
                ctx.verdicts.violation(f"determinism|{what}_differs|{label}|{comp.get('class') or 'accepted'}", c, {"expected": str(s1)[:600], "observed": str(s)[:600]})
                break
        ok += good
        if comp.get("ok") and f in ("generated", "corpus", "mutant") and len(exec_cases) < ctx.pick(300, 5000):
            exec_cases.append(c)
    # behaviour of the compiled program is a function of the text: run accepted texts twice (different processes / limits that do not trip)
    runs = []
    for c in exec_cases:
        has_main = re.search(r"\bfn main\(\)", c["source"]) is not None
        base = {"source": c["source"], "dump": {"per": 24, "nodes": 800}, "rng_seed": 5, "clock": 1.5e9, "timeout_ms": 20000}
        if has_main:
            base["calls"] = [{"fn": "main"}]
        runs.append(dict(base, id=c["id"] + "-r1"))
        runs.append(dict(base, id=c["id"] + "-r2", limits={"size": 10 ** 10, "ud_call": 10 ** 9, "depth": 10 ** 6, "search": 10 ** 9}))
    robs = ctx.run(runs, name="C12_run", case_timeout_ms=20000)
    behav_cmp = 0
    for k in range(0, len(runs), 2):
        total += 1
        a, b = robs[k], robs[k + 1]
        if any(x.get("timeout") or x.get("died") or x.get("harness_error") for x in (a, b)):
            continue        # non-termination of *programs* is C10's matter
        unordered = re.search(r"\b(set|mapping|Set|Mapping|json|update_counter|to_set)\b", runs[k]["source"]) is not None

        def view(o):
            f = batch.program_failure(o)
            if f is not None:
                return ("fail", f.get("kind"), f.get("violation"), core.panic_sig(f.get("panic")) if f.get("panic") else None)
            # sets / mappings are compared as multisets (iteration order is unspecified)
            def norm(d):
                # the text of an error value may quote the debug rendering of a set / mapping, whose order is unspecified
                if d and d[0] == "err" and ("inner: {" in d[1] or unordered):
                    return "('err', <text that may quote a hash collection>)"
                return repr(core.strip_dump(d))
            vals = {n: norm(x.get("dump")) for n, x in (o.get("bindings") or {}).items()}
            calls = [(c_.get("outcome"), norm(c_.get("dump")) if c_.get("dump") else c_.get("violation")) for c_ in (o.get("calls") or [])]
            return ("ok", vals, calls, o.get("output"))
        behav_cmp += 1
        va, vb = view(a), view(b)
        if va != vb:
            # output that prints an unspecified iteration order is not comparable
            if va[0] == "ok" and vb[0] == "ok" and va[1] == vb[1] and va[2] == vb[2] and re.search(r"\b(set|mapping|Set|Mapping)\b", runs[k]["source"]):
                ok += 1
                continue
            ctx.verdicts.violation("determinism|behaviour_of_compiled_program_differs", runs[k], {"expected": str(va)[:800], "observed": str(vb)[:800]})
        else:
            ok += 1
    samples = [{"text": texts[i][:300], "family": fam[i], "outcome": compile_sig(obs1[i])[0], "error": (compile_sig(obs1[i])[1] or "")[:200]} for i in (0, len(texts) // 3, len(texts) - 5)]
    cov = {"evaluations": total, "distinct_nontrivial": len(set(texts)),
           "rule": "one evaluation = one text fed to a fresh compiler (twice in each of two processes, the second with other compilations before it and "
                   "other limits) or one accepted program executed twice; distinct = distinct texts; every text is non-trivial (it is parsed)",
           "samples": samples, "agreeing": ok, "texts": len(texts), "accepted": accepted, "rejected_by_class": classes, "distinct_panic_sites": panics,
           "determinism_comparisons": det_cmp, "behaviour_comparisons": behav_cmp, "families": {f: fam.count(f) for f in set(fam)}}
    return {"coverage": cov, "broken": None if total > 500 and accepted > 20 else "too few texts / nothing accepted",
            "assumptions": ["texts up to 6 kB", "termination is decided by a 15 s watchdog with a solo re-run at 45 s; one timeout alone is inconclusive",
                            "outputs of programs that print the iteration order of sets / mappings are compared on values only"]}


def replay(ctx, rec):
    c = dict(rec["case"])
    c["compile_repeat"] = 2
    o = ctx.run([c, dict(c, id="again")], name="C12_replay", chunk=1, case_timeout_ms=45000)
    sigs = [compile_sig(x) if "compile" in x else ("dead", str(x)[:200]) for x in o]
    print(c["source"][:800])
    print("compile outcomes:", sigs)
    if any(s[0] in ("panic", "dead") for s in sigs) or len(set(sigs)) > 1:
        print(f"VIOLATION property={ctx.prop} replay=<replayed>")
        return 1
    print("replay: not reproduced in two processes")
    return 0
