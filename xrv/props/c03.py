"""C03 Lexical scoping, closures and one-time defaults.
Oracle: the reference evaluator of xrv.corelang run on *unique* names (every declaration has its own
uid, environments are the specification of lexical scoping); the source text is printed with
spellings chosen by the generator so that shadowing, same-scope redefinition and look-alike
identifiers occur.  A use may only be generated when the spelling of its declaration resolves to it
under the rule of the book (nearest enclosing declaration that textually precedes the use), so the
interpreter has to resolve every spelling exactly as that rule says to reproduce the values and the
output.  Forward-declaration gating is probed with a fixed list of (program, must be rejected /
value) pairs plus generated mutual-recursion blocks."""
import re

from .. import batch, core, surface
from ..corelang import (BOOL, INT, Bin, Call, Display, FnDecl, FnDef, If, Lambda, LetDecl, Limits, Lit, Node, Program, Var,
                        Violation, call_closure, is_err, ty_src, value_to_model)

LEVEL = "exploration"


def F(n, ret=INT):
    return ("fn", (INT,) * n, ret)


PRELUDE = "struct H0(f: ()->(int))\nstruct H1(f: (int)->(int))\nstruct H2(f: (int, int)->(int))\n"
HS = {0: "H0", 1: "H1", 2: "H2"}

WORDS = ["a", "b", "c", "x", "y", "z", "n", "m", "k", "v", "w", "t", "acc", "tmp", "val", "aa", "A", "X", "x1", "x_1", "_x", "x_", "_", "__", "_1", "_a",
         "item", "item0", "item1", "item2", "item00", "item01", "item1x", "Item1", "item_1", "item10", "item99999", "item100000", "items",
         "iffy", "fnord", "letter", "forwarded", "truely", "falsey", "true_", "false1", "structure", "union_", "type_", "typex", "lets", "fn_", "O0", "l1", "lI",
         "q" * 64, "long_" + "n" * 250, "zz9", "Z"]
LOOKALIKE = ["item1", "item01", "item1x", "Item1", "item_1", "item10", "item100000", "item11", "iTem1", "item1_", "_item1", "item001"]


class Scope:
    def __init__(self, parent=None, fn_uid=None):
        self.parent, self.decls, self.fn_uid = parent, [], fn_uid      # decls: dict(uid, sp, ty, kind, norv)
        self.level = 0 if parent is None else parent.level + 1

    def chain(self):
        s, d = self, 0
        while s is not None:
            yield s, d
            s, d = s.parent, d + 1


# ---- extra nodes (forms that move closures through builtins / data)

class Raw(Node):
    """a composite printed by a template; evaluation given as a python function of the evaluated parts (left to right)"""

    def __init__(self, tmpl, parts, fn, ty=INT):
        self.tmpl, self.parts, self.fn, self.ty = tmpl, parts, fn, ty

    def is_atom(self):
        return True

    def src(self, pr):
        return self.tmpl.format(*[p.src(pr) for p in self.parts])      # parts are listed in evaluation order; the template places them by index

    def ev(self, env, m):
        vs = [p.ev(env, m) for p in self.parts]
        return self.fn(vs, m)


class ForwardDecl:
    def __init__(self, fn):
        self.fn = fn

    def src(self, pr, indent=0):
        ps = ", ".join(f"{pr.nm(n)}: {ty_src(t)}" for n, t in self.fn.params)
        return "    " * indent + f"forward fn {pr.nm(self.fn.name)}({ps})->{ty_src(self.fn.ret)};"

    def run(self, env, m):
        pass


class ScopeGen:
    def __init__(self, rng, reserved, lookalike=False, max_level=6):
        self.rng, self.reserved, self.lookalike, self.max_level = rng, reserved, lookalike, max_level
        self.n = 0
        self.names = {}
        self.budget = 260
        self.dist = {}
        self.shadow_events = self.redefinitions = self.defaults_with_display = self.forward_blocks = 0
        self.escaping_forward = False
        self.spellings = set()
        self.shape = []
        self.max_depth_seen = 0
        self.hof = {}

    # ---- names
    def uid(self, p="u"):
        self.n += 1
        return f"{p}{self.n}"

    def resolve(self, sc, sp):
        for s, d in sc.chain():
            for dd in reversed(s.decls):
                if dd["sp"] == sp:
                    return dd, d
        return None, None

    def visible(self, sc, pred):
        out, seen = [], set()
        for s, d in sc.chain():
            for dd in reversed(s.decls):
                if dd["sp"] in seen:
                    continue
                seen.add(dd["sp"])
                if pred(dd):
                    out.append((dd, d))
        return out

    def spell(self, sc, kind, avoid=()):
        rng = self.rng
        same_scope = {dd["sp"]: dd for dd in sc.decls}
        vis_fn = {dd["sp"] for dd, _ in self.visible(sc, lambda d: d["kind"] == "fn")}
        own = None
        if sc.fn_uid is not None:
            own = self.names.get(sc.fn_uid)
        for _ in range(60):
            r = rng.random()
            pool = LOOKALIKE if self.lookalike and rng.random() < 0.8 else WORDS
            if r < 0.33:
                cands = [dd["sp"] for dd, _ in self.visible(sc, lambda d: True)]
                sp = rng.choice(cands) if cands else rng.choice(pool)
            elif r < 0.9:
                sp = rng.choice(pool)
            else:
                sp = f"{rng.choice('abcdefgh')}{rng.randrange(100)}"
            if sp in self.reserved or sp in avoid or sp == own:
                continue
            if kind == "fn":
                if sp in same_scope or sp in vis_fn:
                    continue
            else:
                if sp in same_scope and same_scope[sp]["kind"] == "fn":
                    continue
                if kind == "param" and sp in same_scope:
                    continue
            prev, _ = self.resolve(sc, sp)
            if prev is not None:
                if sp in same_scope:
                    self.redefinitions += 1
                else:
                    self.shadow_events += 1
            self.spellings.add(sp)
            return sp
        self.n += 1
        return f"fresh_{self.n}"

    def declare(self, sc, ty, kind, p="u", norv=False, avoid=()):
        u = self.uid(p)
        sp = self.spell(sc, kind, avoid)
        self.names[u] = sp
        dd = {"uid": u, "sp": sp, "ty": ty, "kind": kind, "norv": norv}
        sc.decls.append(dd)
        return dd

    def use(self, dd, dist):
        self.dist[dist] = self.dist.get(dist, 0) + 1
        return Var(dd["uid"], dd["ty"])

    # ---- expressions
    def lit(self):
        return Lit(self.rng.choice([1, 2, 3, 5, 7, 11, 13, 17, 19, 23, 29, 31, 37, 41, 43, 47, 53, 0, -1, 100]))

    def int_leaf(self, sc):
        vs = self.visible(sc, lambda d: d["ty"] == INT)
        if vs and self.rng.random() < 0.75:
            return self.use(*self.rng.choice(vs))
        return self.lit()

    def gen_int(self, sc, d):
        rng = self.rng
        self.budget -= 1
        if d <= 0 or self.budget <= 0:
            return self.int_leaf(sc)
        r = rng.random()
        if r < 0.16:
            return self.int_leaf(sc)
        if r < 0.34:
            op = rng.choice(["+", "+", "+", "-", "*"])
            b = Lit(rng.choice([2, 3])) if op == "*" else self.gen_int(sc, d - 1)
            return Bin(op, self.gen_int(sc, d - 1), b, INT)
        if r < 0.42:
            c = Bin(rng.choice(["<", ">", "<=", ">=", "==", "!="]), self.gen_int(sc, d - 1), self.gen_int(sc, d - 1), BOOL)
            return If(c, self.gen_int(sc, d - 1), self.gen_int(sc, d - 1))
        if r < 0.62:
            c = self.gen_call(sc, d)
            if c is not None:
                return c
        if r < 0.70:
            return Display(self.gen_int(sc, d - 1))
        if r < 0.78:
            n = rng.choice([0, 1, 1, 2])
            f = self.gen_lambda(sc, d - 1, n)
            return Call(f, [self.gen_int(sc, d - 1) for _ in range(n)], INT)
        if r < 0.92:
            return self.gen_hof(sc, d)
        return self.int_leaf(sc)

    def gen_call(self, sc, d):
        """call of a visible function-typed name (named function, closure variable, closure parameter) or of a maker's result"""
        rng = self.rng
        vs = self.visible(sc, lambda dd: isinstance(dd["ty"], tuple) and dd["ty"][0] == "fn" and not dd.get("rec") and not dd.get("reccall"))
        if not vs:
            return None
        dd, dist = rng.choice(vs)
        ty = dd["ty"]
        callee = self.use(dd, dist)
        nargs = len(ty[1])
        ndef = dd.get("ndef", 0)
        if ndef and rng.random() < 0.6:
            nargs -= rng.randint(1, ndef)
        args = [self.gen_int(sc, d - 1) for _ in range(nargs)]
        c = Call(callee, args, ty[2])
        if ty[2] == INT:
            return c
        # a maker: call its result as well
        inner = ty[2]
        return Call(c, [self.gen_int(sc, d - 1) for _ in inner[1]], INT)

    def gen_fn_value(self, sc, d, n):
        """an expression of type (int^n)->(int)"""
        rng = self.rng
        r = rng.random()
        t = F(n)
        if r < 0.35:
            vs = self.visible(sc, lambda dd: dd["ty"] == t and not dd["norv"] and not dd.get("ndef") and not dd.get("rec"))
            if vs:
                return self.use(*rng.choice(vs))
        if r < 0.5:
            mk = self.visible(sc, lambda dd: isinstance(dd["ty"], tuple) and dd["ty"][0] == "fn" and dd["ty"][2] == t and not dd["norv"] and not dd.get("ndef") and not dd.get("rec"))
            if mk:
                dd, dist = rng.choice(mk)
                return Call(self.use(dd, dist), [self.gen_int(sc, d - 1) for _ in dd["ty"][1]], t)
        return self.gen_lambda(sc, d, n)

    def gen_lambda(self, sc, d, n, ret=INT):
        rng = self.rng
        inner = Scope(sc)
        self.max_depth_seen = max(self.max_depth_seen, inner.level)
        self.shape.append("(")
        params = []
        for _ in range(n):
            dd = self.declare(inner, INT, "param", "p")
            params.append((dd["uid"], INT))
        ndef = 1 if n and rng.random() < 0.15 else 0
        defaults = [self.pure_int(sc, 1) for _ in range(ndef)]
        decls = []
        if rng.random() < 0.25 and d > 0:
            decls.append(self.gen_let(inner, d - 1))
        body = self.gen_int(inner, max(0, d - 1)) if ret == INT else self.gen_fn_value(inner, max(0, d - 1), len(ret[1]))
        self.shape.append(")")
        return Lambda(FnDef(None, params, ret, decls, body, defaults))

    def pure_int(self, sc, d):
        if d <= 0 or self.rng.random() < 0.5:
            return self.int_leaf(sc)
        return Bin(self.rng.choice(["+", "-"]), self.pure_int(sc, d - 1), self.pure_int(sc, d - 1), INT)

    def gen_hof(self, sc, d):
        """a closure moved through a builtin or a data structure before it is called"""
        rng = self.rng
        kind = rng.choice(["map", "filter", "reduce", "struct", "seq", "opt", "partial", "pass", "twice", "sort"])
        self.hof[kind] = self.hof.get(kind, 0) + 1
        g = self.gen_int
        if kind == "map":
            n = rng.randint(1, 3)
            k = rng.randrange(n)
            f = self.gen_fn_value(sc, d - 1, 1)
            elems = [g(sc, d - 2) for _ in range(n)]
            return Raw("[" + ", ".join(["{}"] * n) + "].map({}).to_array()[" + str(k) + "]", elems + [f],
                       lambda vs, m, n=n, k=k: [call_closure(vs[n], [x], m) for x in vs[:n]][k])
        if kind == "filter":
            n = rng.randint(1, 3)
            f = self.gen_fn_value(sc, d - 1, 1)
            elems = [g(sc, d - 2) for _ in range(n)]
            piv = self.int_leaf(sc)
            return Raw("((f_: (int)->(int))->{{ [" + ", ".join("{%d}" % (i + 1) for i in range(n)) + "].filter((e_: int)->{{ f_(e_) > {" + str(n + 1) + "} }}).to_array().len() }})({0})",
                       [f] + elems + [piv], lambda vs, m, n=n: sum(1 for x in vs[1:n + 1] if call_closure(vs[0], [x], m) > vs[n + 1]))
        if kind == "reduce":
            n = rng.randint(1, 3)
            f = self.gen_fn_value(sc, d - 1, 2)
            elems = [g(sc, d - 2) for _ in range(n)]
            init = g(sc, d - 2)

            def red(vs, m, n=n):
                acc = vs[n]
                for x in vs[:n]:
                    acc = call_closure(vs[n + 1], [acc, x], m)
                return acc
            return Raw("[" + ", ".join(["{}"] * n) + "].reduce({}, {})", elems + [init, f], red)
        if kind == "struct":
            n = rng.choice([0, 1, 2])
            f = self.gen_fn_value(sc, d - 1, n)
            args = [g(sc, d - 2) for _ in range(n)]
            return Raw("(" + HS[n] + "({})::f)(" + ", ".join(["{}"] * n) + ")", [f] + args, lambda vs, m: call_closure(vs[0], vs[1:], m))
        if kind == "seq":
            cnt = rng.randint(1, 3)
            k = rng.randrange(cnt)
            fs = [self.gen_fn_value(sc, d - 1, 1) for _ in range(cnt)]
            a = g(sc, d - 2)
            return Raw("[" + ", ".join(["{}"] * cnt) + "][" + str(k) + "]({})", fs + [a], lambda vs, m, k=k, cnt=cnt: call_closure(vs[k], [vs[cnt]], m))
        if kind == "opt":
            f = self.gen_fn_value(sc, d - 1, 1)
            a = g(sc, d - 2)
            return Raw("some({}).value()({})", [f, a], lambda vs, m: call_closure(vs[0], [vs[1]], m))
        if kind == "partial":
            vs = self.visible(sc, lambda dd: dd["kind"] == "fn" and dd["ty"] in (F(1), F(2)) and not dd["norv"] and not dd.get("ndef") and not dd.get("rec"))
            if not vs:
                return self.int_leaf(sc)
            dd, dist = rng.choice(vs)
            n = len(dd["ty"][1])
            args = [g(sc, d - 2) for _ in range(n)]
            return Raw("partial({}, {})(" + ("{}" if n == 2 else "") + ")", [self.use(dd, dist)] + args, lambda vs, m: call_closure(vs[0], vs[1:], m))
        if kind == "pass":
            # a closure handed to a visible function that takes a closure parameter: generated on the fly as a lambda taking it
            f = self.gen_fn_value(sc, d - 1, 1)
            a = g(sc, d - 2)
            return Raw("((h_: (int)->(int), v_: int)->{{ h_(v_) + h_(v_ + 1) }})({}, {})", [f, a],
                       lambda vs, m: _add(call_closure(vs[0], [vs[1]], m), call_closure(vs[0], [vs[1] + 1], m)))
        if kind == "twice":
            f = self.gen_fn_value(sc, d - 1, 0)
            return Raw("((h_: ()->(int))->{{ h_() * 3 + h_() }})({})", [f], lambda vs, m: _add(call_closure(vs[0], [], m) * 3, call_closure(vs[0], [], m)))
        if kind == "sort":
            # comparator closure that captures: sort descending or ascending depending on a captured value
            piv = self.int_leaf(sc)
            elems = [g(sc, d - 2) for _ in range(3)]

            def srt(vs, m):
                xs = sorted(vs[:3], reverse=vs[3] % 2 == 0)
                return xs[0] * 100 + xs[1] * 10 + xs[2]
            return Raw("((s_: Sequence<int>)->{{ s_[0] * 100 + s_[1] * 10 + s_[2] }})([{}, {}, {}].sort((l_: int, r_: int)->{{ if({} % 2 == 0, cmp(r_, l_), cmp(l_, r_)) }}))",
                       elems + [piv], srt)
        return self.int_leaf(sc)

    # ---- declarations
    def gen_let(self, sc, d):
        rng = self.rng
        if rng.random() < 0.22:
            n = rng.choice([0, 1, 1, 2])
            e = self.gen_fn_value(sc, d, n)
            dd = self.declare(sc, F(n), "let", "c")
            return LetDecl(dd["uid"], e)
        e = self.gen_int(sc, d)
        dd = self.declare(sc, INT, "let", "v")
        return LetDecl(dd["uid"], e)

    def gen_function(self, sc, d, ret=None):
        """a named function (possibly a maker returning a closure), nested declarations inside"""
        rng = self.rng
        if ret is None:
            ret = INT if rng.random() < 0.75 else F(rng.choice([0, 1, 1, 2]))
        nparams = rng.randint(0, 3) if ret == INT else rng.randint(0, 2)
        ndef = min(nparams, rng.choice([0, 0, 0, 1, 2])) if ret == INT else 0
        # defaults are evaluated in the defining scope, before the function's own name exists
        defaults = []
        for _ in range(ndef):
            e = self.pure_int(sc, 1)
            if rng.random() < 0.6:
                e = Display(e)
                self.defaults_with_display += 1
            defaults.append(e)
        me = self.declare(sc, F(nparams, ret), "fn", "f")
        me["ndef"] = ndef
        inner = Scope(sc, fn_uid=me["uid"])
        self.max_depth_seen = max(self.max_depth_seen, inner.level)
        self.shape.append("{")
        params = []
        for _ in range(nparams):
            dd = self.declare(inner, INT, "param", "p")
            params.append((dd["uid"], INT))
        me["rec"] = True            # not callable from its own body except through the recursion forms
        decls = self.gen_decls(inner, d - 1, rng.choice([0, 0, 1, 1, 2, 3]))
        if ret == INT:
            body = self.gen_int(inner, d)
        else:
            body = self.gen_fn_value(inner, d, len(ret[1]))
        me["rec"] = False
        self.shape.append("}")
        return FnDecl(FnDef(me["uid"], params, ret, decls, body, defaults))

    def gen_recursive(self, sc, d):
        """fn r(n, a) { if(n <= 0, BASE, COMB(r(n - 1, A))) }, optionally through a captured lambda; only called with small literals"""
        rng = self.rng
        me = self.declare(sc, F(2), "fn", "r", norv=True)
        me["rec"] = True
        inner = Scope(sc, fn_uid=me["uid"])
        self.shape.append("{")
        n = self.declare(inner, INT, "param", "p")
        a = self.declare(inner, INT, "param", "p")
        decls = self.gen_decls(inner, d - 2, rng.choice([0, 0, 1]))
        # the parameters may have been shadowed by the declarations: the recursion needs them
        nres, _ = self.resolve(inner, n["sp"])
        ares, _ = self.resolve(inner, a["sp"])
        if nres is not n or ares is not a or self.resolve(inner, self.names[me["uid"]])[0] is not me:
            decls = []
            inner.decls = [n, a]
        # generation order = textual order (a declaration made later must not be visible to text that precedes it)
        via_lambda = rng.random() < 0.3
        if via_lambda:
            lam_sc = Scope(inner)
            self.shape.append("(")
            mm = self.declare(lam_sc, INT, "param", "p", avoid=(self.names[me["uid"]],))
            ok = self.resolve(lam_sc, self.names[me["uid"]])[0] is me and self.resolve(lam_sc, a["sp"])[0] is a
            if not ok:
                via_lambda = False
                self.shape.pop()
            else:
                rec = Call(self.use(me, 2), [Bin("-", Var(mm["uid"], INT), Lit(1), INT), Bin("+", self.use(a, 1), self.gen_int(lam_sc, 1), INT)], INT)
                lam_body = If(Bin("<=", Var(mm["uid"], INT), Lit(0), BOOL), self.gen_int(lam_sc, 1), Bin("+", rec, self.gen_int(lam_sc, 1), INT))
                self.shape.append(")")
                lam = Lambda(FnDef(None, [(mm["uid"], INT)], INT, [], lam_body))
                kdd = self.declare(inner, F(1), "let", "c", avoid=(n["sp"], a["sp"], self.names[me["uid"]]))
                decls.append(LetDecl(kdd["uid"], lam))
                body = Bin("+", Call(Var(kdd["uid"], F(1)), [Var(n["uid"], INT)], INT), self.gen_int(inner, 1), INT)
        if not via_lambda:
            base = self.gen_int(inner, 1)
            rec = Call(self.use(me, 1), [Bin("-", Var(n["uid"], INT), Lit(1), INT), Bin("+", Var(a["uid"], INT), self.gen_int(inner, 1), INT)], INT)
            comb = rec if rng.random() < 0.4 else Bin("+", rec, self.gen_int(inner, 1), INT)
            body = If(Bin("<=", Var(n["uid"], INT), Lit(0), BOOL), Bin("+", base, Var(a["uid"], INT), INT), comb)
        self.shape.append("}")
        me["rec"] = False
        me["reccall"] = True
        return FnDecl(FnDef(me["uid"], [(n["uid"], INT), (a["uid"], INT)], INT, decls, body))

    def gen_forward_block(self, sc, d):
        """forward fn o; fn e {.. o ..}  fn o {.. e ..}: both usable after the block"""
        rng = self.rng
        self.forward_blocks += 1
        o = self.declare(sc, F(1), "fn", "o", norv=True)
        e = self.declare(sc, F(1), "fn", "e", norv=True)
        o["rec"] = e["rec"] = True
        out = []
        fdefs = {}
        for me, other in ((e, o), (o, e)):
            inner = Scope(sc, fn_uid=me["uid"])
            self.shape.append("{")
            n = self.declare(inner, INT, "param", "p", avoid=(self.names[other["uid"]],))
            base = self.gen_int(inner, 1)
            rec = Call(self.use(other, 1), [Bin("-", Var(n["uid"], INT), Lit(1), INT)], INT)
            step = Bin("+", rec, self.gen_int(inner, 1), INT)
            body = If(Bin("<=", Var(n["uid"], INT), Lit(0), BOOL), base, step)
            self.shape.append("}")
            fdefs[me["uid"]] = FnDef(me["uid"], [(n["uid"], INT)], INT, [], body)
        out.append(ForwardDecl(fdefs[o["uid"]]))
        out.append(FnDecl(fdefs[e["uid"]]))
        out.append(FnDecl(fdefs[o["uid"]]))
        o["rec"] = e["rec"] = False
        o["reccall"] = e["reccall"] = True
        o["ty1"] = e["ty1"] = True
        return out

    def rec_call(self, sc):
        """a call of a recursive function with a small literal"""
        vs = self.visible(sc, lambda dd: dd.get("reccall") and not dd.get("rec"))
        if not vs:
            return None
        dd, dist = self.rng.choice(vs)
        args = [Lit(self.rng.choice([0, 1, 2, 3]))]
        if len(dd["ty"][1]) == 2:
            args.append(self.int_leaf(sc))
        return Call(self.use(dd, dist), args, INT)

    def gen_decls(self, sc, d, count):
        rng = self.rng
        out = []
        for _ in range(count):
            if self.budget <= 0:
                break
            r = rng.random()
            if r < 0.45 or d <= 0:
                out.append(self.gen_let(sc, max(0, d)))
            elif r < 0.75 and sc.level < self.max_level:
                out.append(self.gen_function(sc, d))
            elif r < 0.85 and sc.level < self.max_level:
                out.append(self.gen_recursive(sc, d))
                c = self.rec_call(sc)
                if c is not None:
                    dd = self.declare(sc, INT, "let", "v")
                    out.append(LetDecl(dd["uid"], c))
            elif r < 0.93 and sc.level < self.max_level:
                out.extend(self.gen_forward_block(sc, d))
                c = self.rec_call(sc)
                if c is not None:
                    dd = self.declare(sc, INT, "let", "v")
                    out.append(LetDecl(dd["uid"], c))
            else:
                out.append(self.gen_let(sc, max(0, d)))
        return out

    PRIMES = [2, 3, 5, 7, 11, 13, 17, 19, 23, 29, 31, 37, 41, 43, 47, 53, 59, 61, 67, 71, 73, 79, 83, 89, 97, 101, 103, 107, 109, 113]

    def weighted_sum(self, sc):
        """every int binding that is still resolvable, each with its own prime weight: a wrong cell changes the sum"""
        e = None
        for k, (dd, dist) in enumerate(self.visible(sc, lambda dd: dd["ty"] == INT)[:len(self.PRIMES)]):
            t = Bin("*", self.use(dd, dist), Lit(self.PRIMES[k]), INT)
            e = t if e is None else Bin("+", e, t, INT)
        return e or Lit(1)

    def deep(self, sc, level, levels, escape):
        """fn at `level` of a chain nested `levels` deep; the innermost body sums everything visible.  With `escape` every level
        returns a closure instead, so the innermost closure is called after all defining frames are gone."""
        rng = self.rng
        ret = F(1) if escape else INT
        nparams = rng.randint(1, 2)
        me = self.declare(sc, F(nparams, ret), "fn", "f")
        me["rec"] = True
        inner = Scope(sc, fn_uid=me["uid"])
        self.max_depth_seen = max(self.max_depth_seen, inner.level)
        self.shape.append("{")
        params = []
        for _ in range(nparams):
            dd = self.declare(inner, INT, "param", "p")
            params.append((dd["uid"], INT))
        decls = []
        for _ in range(rng.choice([0, 1, 1, 2])):
            e = self.weighted_sum(inner) if rng.random() < 0.5 else self.pure_int(inner, 2)
            dd = self.declare(inner, INT, "let", "v")
            decls.append(LetDecl(dd["uid"], e))
        if level < levels:
            child = self.deep(inner, level + 1, levels, escape)
            decls.append(child)
            cdd = inner.decls[-1] if inner.decls[-1]["kind"] == "fn" else next(d for d in inner.decls if d["uid"] == child.fn.name)
            for _ in range(rng.choice([0, 0, 1])):
                e = self.pure_int(inner, 1)
                dd = self.declare(inner, INT, "let", "v")      # a declaration after the nested function: must not change what it captured
                decls.append(LetDecl(dd["uid"], e))
            ok = self.resolve(inner, cdd["sp"])[0] is cdd
            call = Call(Var(cdd["uid"], cdd["ty"]), [self.pure_int(inner, 1) for _ in cdd["ty"][1]], cdd["ty"][2]) if ok else None
            if escape:
                body = call if call is not None else self.gen_lambda(inner, 1, 1)
            else:
                body = Bin("+", call, self.weighted_sum(inner), INT) if call is not None else self.weighted_sum(inner)
        else:
            if escape:
                lam_sc = Scope(inner)
                self.shape.append("(")
                q = self.declare(lam_sc, INT, "param", "p")
                lam_body = self.weighted_sum(lam_sc)
                self.shape.append(")")
                body = Lambda(FnDef(None, [(q["uid"], INT)], INT, [], lam_body))
            else:
                body = self.weighted_sum(inner)
        self.shape.append("}")
        me["rec"] = False
        return FnDecl(FnDef(me["uid"], params, ret, decls, body))

    def deep_program(self, levels, escape):
        sc = Scope()
        decls = []
        for _ in range(self.rng.randint(0, 2)):
            dd = self.declare(sc, INT, "let", "v")
            decls.append(LetDecl(dd["uid"], self.lit()))
        top = self.deep(sc, 1, levels, escape)
        decls.append(top)
        tdd = next(d for d in sc.decls if d["uid"] == top.fn.name)
        for k in range(2):
            args = [self.lit() for _ in tdd["ty"][1]]
            c = Call(Var(tdd["uid"], tdd["ty"]), args, tdd["ty"][2])
            if escape:
                cl = self.declare(sc, F(1), "let", "c", avoid=(tdd["sp"],))
                decls.append(LetDecl(cl["uid"], c))
                c = Bin("+", Call(Var(cl["uid"], F(1)), [self.lit()], INT), Bin("*", Call(Var(cl["uid"], F(1)), [self.lit()], INT), Lit(1000003), INT), INT)
            r = self.declare(sc, INT, "let", "v", avoid=(tdd["sp"],) + tuple(d["sp"] for d in sc.decls if d["kind"] == "let" and d["ty"] != INT))
            decls.append(LetDecl(r["uid"], c))
        return Program(decls), sc

    def program(self, n_decls, d):
        sc = Scope()
        decls = self.gen_decls(sc, d, n_decls)
        # a final summary binding that uses every int binding still resolvable
        vs = self.visible(sc, lambda dd: dd["ty"] == INT)
        e = Lit(0)
        for k, (dd, dist) in enumerate(vs[:12]):
            e = Bin("+", e, Bin("*", self.use(dd, dist), Lit(k + 1), INT), INT)
        fin = self.declare(sc, INT, "let", "v", avoid=tuple(dd["sp"] for dd in sc.decls))
        decls.append(LetDecl(fin["uid"], e))
        return Program(decls), sc


def _add(a, b):
    if is_err(a):
        return a
    if is_err(b):
        return b
    return a + b


# ---- forward-declaration gating probes: (tail of the program after `forward fn g; fn f(x){ g(x) + 1 }`, expectation)
FWD_HEAD = "forward fn g(x: int)->int;\nfn f(x: int)->int{ g(x) + 1 }\n"
FWD_TAIL = "\nfn g(x: int)->int{ x * 2 }\nlet fin = f(1);\n"
FWD_PROBES = [
    ("let r = f(3);", "reject"), ("let r = g(3);", "reject"), ("let r = [1].map(f).to_array();", "reject"), ("let k2 = f; let r = k2(1);", "reject"),
    ("let r = (()->{ f(1) })();", "reject"), ("let l = ()->{ f(1) }; let r = l();", "reject"), ("let r = [f][0](2);", "reject"),
    ("fn ap(q: (int)->(int))->int{ q(1) } let r = ap(f);", "reject"), ("let r = partial(f, 1)();", "reject"), ("struct HH(f: (int)->(int)) let r = (HH(f)::f)(1);", "reject"),
    ("let r = some(f).value()(1);", "reject"), ("fn w()->int{ f(1) } let r = w();", "reject"), ("fn w()->int{ let l = ()->{ f(1) }; l() } let r = w();", "reject"),
    ("fn w(x: int ?= f(1))->int{ x } let r = 1;", "reject"), ("fn w()->int{ fn v()->int{ f(1) } v() } let r = w();", "reject"),
    ("let r = [1].map((x: int)->{ g(x) }).to_array();", "reject"), ("let l = ()->{ ()->{ g(1) } }; let r = l()();", "reject"),
    ("fn w()->()->(int){ ()->{ f(1) } } let r = w()();", "reject"), ("let r = if(true, 1, f(1));", "reject"), ("let r = if_error(f(1), 0);", "reject"),
    ("let r = 5;", {"r": 5, "fin": 3}), ("fn w()->int{ f(1) }", {"fin": 3}), ("fn w()->int{ let l = ()->{ f(1) }; l() }", {"fin": 3}),
    ("fn w()->int{ fn v()->int{ f(1) } v() } let r = 7;", {"r": 7, "fin": 3}), ("forward fn h(x: int)->int;\nfn w()->int{ h(1) + f(1) }\nfn h(x: int)->int{ x + 10 }", {"fin": 3}),
]
# systematic part: every way of using the dependent function (or the forward function itself) x every way of wrapping the use
_USES = [("call", "{F}(1)"), ("value_then_call", "[{F}][0](1)"), ("value_through_map", "[1].map({F}).to_array()[0]"), ("value_alias", "(({F}))(1)")]
_WRAPS = [("direct", "let r = {U};"), ("named_fn", "fn w_()->int{{ {U} }}\nlet r = w_();"), ("lambda", "let l_ = ()->{{ {U} }};\nlet r = l_();"),
          ("nested_fn", "fn w_()->int{{ fn v_()->int{{ {U} }} v_() }}\nlet r = w_();"), ("fn_returning_lambda", "fn w_()->()->(int){{ ()->{{ {U} }} }}\nlet r = w_()();"),
          ("getter", "fn w_()->(int)->(int){{ {F} }}\nlet r = w_()(1);"), ("lambda_getter", "let l_ = ()->{{ {F} }};\nlet r = l_()(1);"),
          ("local_alias_in_fn", "fn w_()->int{{ let k_ = {F}; k_(1) }}\nlet r = w_();"), ("default_value", "fn w_(x: int ?= {U})->int{{ x }}\nlet r = w_();")]
for _fn in ("f", "g"):
    for _un, _u in _USES:
        for _wn, _w in _WRAPS:
            if "{U}" not in _w and _un != "call":
                continue
            FWD_PROBES.append((_w.format(U=_u.format(F=_fn), F=_fn), "reject"))
FWD_AFTER = [  # placed after the implementation: must be accepted with this value of r
    ("let r = f(3);", 7), ("let r = [1].map(f).to_array()[0];", 3), ("let k2 = f; let r = k2(1);", 3), ("let r = (()->{ f(1) })();", 3),
    ("let r = partial(f, 1)();", 3), ("fn w()->()->(int){ ()->{ f(1) } } let r = w()();", 3), ("fn w(x: int ?= f(1))->int{ x } let r = w();", 3),
]
# nested blocks: the closure escapes the frame in which the forward declaration lives (known finding K-C03-01 / K-C01-01)
ESCAPE_PROBES = [
    ("fn outer()->()->(int){ forward fn b()->int; fn a()->int{ b() } fn b()->int{ 5 } a }\nlet r = outer()();", 5, "escaping_forward"),
    ("fn outer()->()->(int){ forward fn b()->int; fn a()->int{ b() } fn b()->int{ 5 } ()->{ a() + 1 } }\nlet r = outer()();", 6, "escaping_forward"),
    ("fn outer(k: int)->int{ forward fn b(n: int)->int; fn a(n: int)->int{ if(n <= 0, k, b(n - 1) + 1) } fn b(n: int)->int{ if(n <= 0, k * 2, a(n - 1) + 10) } a(3) }\nlet r = outer(7);", 7 * 2 + 1 + 10 + 1, "nested_forward"),
    ("fn outer(k: int)->int{ forward fn b(n: int)->int; fn a(n: int)->int{ if(n <= 0, k, b(n - 1) + 1) } fn b(n: int)->int{ if(n <= 0, k * 2, a(n - 1) + 10) } [1, 2].map(a).to_array()[1] }\nlet r = outer(7);", 7 + 10 + 1, "nested_forward"),
]


# forward declarations that share a name (overloads): each implementation fulfils the declaration with *its* signature
_OVF = "forward fn pick(x: int)->int;\nforward fn pick(x: str)->int;\nfn use_int()->int{ pick(1) }\nfn use_str()->int{ pick('x') }\n"
FULL_PROBES = [
    (_OVF + "fn pick(x: str)->int{ 200 }\nfn pick(x: int)->int{ 100 }\nlet r = use_int() * 1000 + use_str();\nlet q = pick(1) * 1000 + pick('x');", {"r": 100200, "q": 100200}),
    (_OVF + "fn pick(x: int)->int{ 100 }\nfn pick(x: str)->int{ 200 }\nlet r = use_int() * 1000 + use_str();\nlet q = pick(1) * 1000 + pick('x');", {"r": 100200, "q": 100200}),
    (_OVF + "fn pick(x: str)->int{ 200 }\nlet r = use_int();\nfn pick(x: int)->int{ 100 }", "reject"),
    (_OVF + "fn pick(x: str)->int{ 200 }\nlet r = use_str();\nfn pick(x: int)->int{ 100 }", {"r": 200}),
    (_OVF + "fn pick(x: int)->int{ 100 }\nlet r = use_str();\nfn pick(x: str)->int{ 200 }", "reject"),
    (_OVF + "fn pick(x: int)->int{ 100 }\nlet r = pick('x');\nfn pick(x: str)->int{ 200 }", "reject"),
    ("fn host()->int{ " + _OVF.replace("\n", " ") + " fn pick(x: str)->int{ 200 } fn pick(x: int)->int{ 100 } use_int() * 1000 + use_str() }\nlet r = host();", {"r": 100200}),
    ("forward fn a(i: int)->int;\nforward fn b(i: int)->int;\nfn a(i: int)->int{ b(i) }\nlet r = a(1);\nfn b(i: int)->int{ i }", "reject"),
    ("forward fn a(i: int)->int;\nforward fn b(i: int)->int;\nfn c(i: int)->int{ a(i) + 1 }\nfn a(i: int)->int{ b(i) }\nlet r = c(1);\nfn b(i: int)->int{ i }", "reject"),
    ("forward fn a(i: int)->int;\nforward fn b(i: int)->int;\nfn c(i: int)->int{ a(i) + 1 }\nfn a(i: int)->int{ b(i) }\nfn b(i: int)->int{ i }\nlet r = c(1);", {"r": 2}),
]


def reserved_names(ctx):
    overloads, dynamic, types, _ = surface.load(ctx)
    sig = core.run_cases(ctx.binary, [{"id": "sig", "mode": "signatures"}], "C03_sig", confirm=False)[0]["signatures"]
    out = {o.name for o in overloads} | set(dynamic) | set(types) | set(sig.get("variables") or [])
    out |= {"let", "fn", "forward", "struct", "union", "type", "true", "false", "if", "error", "H0", "H1", "H2", "e_", "h_", "v_", "s_", "l_", "r_", "int", "str", "bool", "float"}
    return out


def make_cases(ctx):
    rng = ctx.rng
    reserved = reserved_names(ctx)
    cases = []
    n = ctx.pick(4000, 60000)
    tries = 0
    while len(cases) < n and tries < n * 3:
        tries += 1
        g = ScopeGen(rng, reserved, lookalike=rng.random() < 0.2, max_level=rng.choice([2, 3, 4, 6]))
        g.budget = rng.choice([60, 120, 260, 400])
        try:
            if rng.random() < 0.12:
                prog, sc = g.deep_program(rng.randint(3, 6), rng.random() < 0.5)
            else:
                prog, sc = g.program(rng.randint(2, 9), rng.choice([2, 3, 4]))
            res, m, viol = prog.run(limits=Limits(calls=20000, depth=400))
        except (RecursionError, Violation):
            continue
        if viol is not None:
            continue
        # expected value per exported spelling: the last top-level let with that spelling
        expect = {}
        for d in prog.decls:
            if isinstance(d, LetDecl) and d.name in res:
                expect[g.names[d.name]] = res[d.name]
        src = PRELUDE + "\n".join(d.src(_printer(rng, g.names), 0) for d in prog.decls) + "\n"
        cases.append({"id": f"C03-g{len(cases)}", "source": src, "exports": sorted(expect), "dump": {"per": 16, "nodes": 200}, "timeout_ms": 20000,
                      "meta": {"kind": "generated", "shape": "".join(g.shape), "dist": g.dist, "levels": g.max_depth_seen, "shadow": g.shadow_events, "redef": g.redefinitions,
                               "defaults_display": g.defaults_with_display, "forward_blocks": g.forward_blocks, "spellings": sorted(g.spellings), "hof": g.hof, "calls": m.calls},
                      "_expect": expect, "_out": list(m.out)})
    for k, (mid, exp) in enumerate(FWD_PROBES):
        cases.append({"id": f"C03-fwd{k}", "source": FWD_HEAD + mid + FWD_TAIL, "dump": {"per": 16, "nodes": 200}, "meta": {"kind": "fwd_probe", "mid": mid},
                      "_expect": exp, "_out": None})
    for k, (tail, val) in enumerate(FWD_AFTER):
        cases.append({"id": f"C03-fwda{k}", "source": FWD_HEAD + "fn g(x: int)->int{ x * 2 }\n" + tail + "\n", "dump": {"per": 16, "nodes": 200},
                      "meta": {"kind": "fwd_after", "mid": tail}, "_expect": {"r": val}, "_out": None})
    for k, (src, exp) in enumerate(FULL_PROBES):
        cases.append({"id": f"C03-full{k}", "source": src, "dump": {"per": 16, "nodes": 200}, "meta": {"kind": "fwd_probe", "mid": src.replace("\n", " ")[-70:]}, "_expect": exp, "_out": None})
    for k, (src, val, fam) in enumerate(ESCAPE_PROBES):
        cases.append({"id": f"C03-esc{k}", "source": src, "dump": {"per": 16, "nodes": 200}, "meta": {"kind": fam, "mid": src}, "_expect": {"r": val}, "_out": None})
    return cases


def _printer(rng, names):
    from ..corelang import Printer
    return Printer(rng, False, names)


def decide(ctx, c, o, expect, out):
    meta = c["meta"]
    kind = meta["kind"]
    fail = batch.program_failure(o)
    tag = kind if kind == "generated" else f"{kind}:{meta['mid'][:60]}"
    if fail is not None and fail["kind"] == "inconclusive":
        ctx.verdicts.inconclusive_case(str(fail), c)
        return None
    if expect == "reject":
        if fail is not None and fail["kind"] == "rejected" and fail.get("class") == "MissingForwardImplementation":
            return True
        ctx.verdicts.violation(f"{tag}|invoked_before_implementation_not_rejected|" + (fail["kind"] if fail else "accepted"), c,
                               {"expected": "MissingForwardImplementation", "observed": fail or "accepted and ran"})
        return False
    if fail is not None:
        if fail["kind"] == "rejected":
            ctx.verdicts.violation(f"{tag}|rejected:{fail.get('class')}", c, {"expected": "accepted", "observed": fail})
        else:
            sig = fail["kind"] + (":" + core.panic_sig(fail.get("panic")) if fail["kind"] == "panic" else ":" + str(fail.get("violation")))
            if kind == "generated" and "ran out of scope parents" in sig and re.search(r"\n\s+forward fn ", c["source"]):
                tag = "generated_with_forward_fn_inside_a_function"
            ctx.verdicts.violation(f"{tag}|{sig}", c, {"expected": "runs to completion", "observed": fail})
        return False
    for name, v in expect.items():
        got = batch.binding_outcome(o["bindings"].get(name))
        if not batch.matches(value_to_model(v), got):
            ctx.verdicts.violation(f"{tag}|binding_differs", c, {"binding": name, "expected": repr(v)[:200], "observed": {k: got.get(k) for k in ("kind", "raw", "panic")}})
            return False
    if out is not None:
        want = "".join(l + "\n" for l in out)
        if (o.get("output") or "") != want:
            ctx.verdicts.violation(f"{tag}|output_differs", c, {"expected": want[:600], "observed": {"output": (o.get("output") or "")[:600]}})
            return False
    return True


def run(ctx):
    ctx.canary()
    cases = make_cases(ctx)
    expects = [(c.pop("_expect"), c.pop("_out")) for c in cases]
    obs = ctx.run(cases, name="C03")
    ok = decided = 0
    dist, shapes, spellings, hof = {}, set(), set(), {}
    levels = {}
    shadow = redef = dd = fwd = lines = bindings = 0
    for c, (exp, out), o in zip(cases, expects, obs):
        r = decide(ctx, c, o, exp, out)
        if r is None:
            continue
        decided += 1
        ok += bool(r)
        m = c["meta"]
        if m["kind"] == "generated":
            for k, v in m["dist"].items():
                dist[int(k)] = dist.get(int(k), 0) + v
            shapes.add(m["shape"])
            spellings.update(m["spellings"])
            levels[m["levels"]] = levels.get(m["levels"], 0) + 1
            shadow += m["shadow"]
            redef += m["redef"]
            dd += m["defaults_display"]
            fwd += m["forward_blocks"]
            lines += len(out or [])
            bindings += len(exp)
            for k, v in m["hof"].items():
                hof[k] = hof.get(k, 0) + v
    # monitor canary: a wrong cell must be noticed (same program, expected value of one binding perturbed)
    gen = [(c, e, o) for c, (e, _), o in zip(cases, expects, obs) if c["meta"]["kind"] == "generated" and isinstance(e, dict) and e and batch.program_failure(o) is None]
    if gen:
        c, e, o = gen[0]
        probe = core.Verdicts(ctx.prop, ctx.tier, ctx.seed)
        real, ctx.verdicts = ctx.verdicts, probe
        k = sorted(e)[0]
        decide(ctx, c, o, dict(e, **{k: (e[k] + 1) if isinstance(e[k], int) else 0}), None)
        ctx.verdicts = real
        if not probe.new and isinstance(e[k], int):
            raise core.Broken("wrong-cell canary was not noticed")
    samples = [{"program": cases[0]["source"][:1800], "expected": {k: repr(v) for k, v in list(expects[0][0].items())[:6]}, "expected_output": (expects[0][1] or [])[:8]},
               {"forward_probe": FWD_HEAD + FWD_PROBES[2][0] + FWD_TAIL, "expected": "MissingForwardImplementation"}]
    cov = {"evaluations": len(cases), "distinct_nontrivial": len({c["source"] for c in cases}),
           "rule": "one evaluation = one generated scoping program (every exported binding and the whole output compared with the reference evaluator run on unique names) "
                   "or one forward-declaration probe; distinct = distinct source texts",
           "samples": samples, "agreeing": ok, "decided": decided, "bindings_compared": bindings, "output_lines_compared": lines,
           "distinct_nesting_shapes": len(shapes), "max_nesting_level_histogram": {str(k): v for k, v in sorted(levels.items())},
           "capture_distance_histogram": {str(k): v for k, v in sorted(dist.items())}, "shadowing_declarations": shadow, "same_scope_redefinitions": redef,
           "defaults_with_display": dd, "forward_blocks_generated": fwd, "forward_gating_probes": len(FWD_PROBES) + len(FWD_AFTER) + len(ESCAPE_PROBES) + len(FULL_PROBES),
           "identifier_spellings_used": len(spellings), "closure_transport_forms": hof}
    return {"coverage": cov, "broken": None if ok > 200 else "too few programs agreed",
            "assumptions": ["a function name may not be re-used for another function visible at the same point (that is overloading: C05)",
                            "recursive functions are only called with literals 0..3 and never passed as values (termination of the model)",
                            "lambda defaults are pure (a lambda is created when the enclosing statement starts, so the moment of an effect in its default is not specified by the book)",
                            "values are ints; closures are compared by calling them"]}


def replay(ctx, rec):
    c = rec["case"]
    o = ctx.run([c], name="C03_replay")[0]
    print(c["source"])
    print("expected:", str(rec["detail"].get("expected"))[:800])
    fail = batch.program_failure(o)
    print("observed now:", fail or {"output": (o.get("output") or "")[:400], "bindings": {n: core.strip_dump(b.get("dump")) for n, b in (o.get("bindings") or {}).items()}})
    was = rec["detail"].get("observed")
    sig = rec.get("signature", "")
    again = False
    if "not_rejected" in sig:
        again = not (fail is not None and fail["kind"] == "rejected" and fail.get("class") == "MissingForwardImplementation")
    elif fail is not None:
        again = isinstance(was, dict) and was.get("kind") == fail.get("kind")
    elif "binding_differs" in sig:
        b = rec["detail"].get("binding")
        now = batch.binding_outcome((o.get("bindings") or {}).get(b))
        again = now.get("raw") == (was or {}).get("raw")
    elif "output_differs" in sig:
        again = (o.get("output") or "")[:600] == (was or {}).get("output")
    if again:
        print(f"VIOLATION property={ctx.prop} replay=<replayed>")
        return 1
    print("replay: not reproduced")
    return 0
