"""C15 Sequences behave as lists whatever their representation.
Oracle: Python lists, plus index->value functions for the infinite ones."""
import itertools
import math

from .. import batch, core
from ..batch import AnyOf, Err, Gen, NONE, Opt, Skip, Stack, Trunc

LEVEL = "exploration"
PER = 48          # elements forced per container by the dump hook
I64 = 1 << 63


class MSeq:
    """model sequence: finite (items) or infinite (fn)"""

    def __init__(self, items=None, fn=None):
        self.items, self.fn = items, fn

    @property
    def inf(self):
        return self.items is None

    def __len__(self):
        return len(self.items)

    def get(self, i):
        return self.fn(i) if self.inf else self.items[i]

    def prefix(self, n):
        return [self.fn(i) for i in range(n)] if self.inf else self.items[:n]

    def expect(self):
        if self.inf:
            return Trunc("q", self.prefix(PER))
        if len(self.items) > PER:
            return Trunc("q", self.items[:PER])
        if len(self.items) == PER:
            return AnyOf(list(self.items), Trunc("q", self.items))
        return list(self.items)


def is_err(x):
    return isinstance(x, Err)


F_MAP = [("(x: int)->{x * 2 + 1}", lambda x: x * 2 + 1), ("(x: int)->{x - 3}", lambda x: x - 3),
         ("(x: int)->{x * x}", lambda x: x * x), ("(x: int)->{x % 3}", lambda x: x % 3),
         ("(x: int)->{7 - x}", lambda x: 7 - x)]
F_PRED = [("(x: int)->{x % 2 == 0}", lambda x: x % 2 == 0), ("(x: int)->{x > 2}", lambda x: x > 2),
          ("(x: int)->{x < 4}", lambda x: x < 4), ("(x: int)->{x == 3}", lambda x: x == 3),
          ("(x: int)->{x % 3 != 1}", lambda x: x % 3 != 1), ("(x: int)->{x < 100}", lambda x: x < 100)]


def ilit(n):
    return str(n) if n >= 0 else f"({n})"


def source_seq(rng):
    """(src, model)"""
    k = rng.random()
    if k < 0.3:
        xs = [rng.randint(-5, 9) for _ in range(rng.choice([0, 1, 2, 3, 4, 5, 6, 8]))]
        if not xs:
            return rng.choice(["range(0)", "[].map((x: int)->{x})", "range(5, 5)", "range(3, 1)"]), MSeq([])
        return "[" + ", ".join(map(ilit, xs)) + "]", MSeq(xs)
    if k < 0.6:
        a, b = rng.randint(-6, 6), rng.randint(-6, 12)
        c = rng.choice([1, 1, 2, 3, -1, -2, -3, 0, 5])
        if rng.random() < 0.08:
            a = rng.choice([I64 - 3, -I64, -I64 + 2, I64 - 1])
            b = rng.choice([I64 - 1, -I64, a + 3 if a + 3 < I64 else a - 3])
        form = rng.random()
        if form < 0.25 and a == 0 and c == 1 and abs(b) < 1000:
            return f"range({ilit(b)})", MSeq(list(range(0, b)))
        if c == 1 and form < 0.5 and abs(b - a) < 1000:
            return f"range({ilit(a)}, {ilit(b)})", MSeq(list(range(a, b)))
        if c == 0:
            return f"range({ilit(a)}, {ilit(b)}, 0)", Err()
        n = max(0, (b - a + (c - (1 if c > 0 else -1))) // c)
        if n > 200:
            m = MSeq(fn=lambda i, a=a, c=c: a + i * c)      # treat as "long": only a prefix is compared
            m.long_finite = n
            return f"range({ilit(a)}, {ilit(b)}, {ilit(c)})", m
        return f"range({ilit(a)}, {ilit(b)}, {ilit(c)})", MSeq(list(range(a, b, c)))
    if k < 0.75:
        return "count()", MSeq(fn=lambda i: i)
    if k < 0.85:
        s, o = rng.randint(-4, 6), rng.choice([1, 2, -1, 3, 0])
        if o == 1 and rng.random() < 0.5:
            return f"count({ilit(s)})", MSeq(fn=lambda i, s=s: i + s)
        return f"count({ilit(s)}, {ilit(o)})", MSeq(fn=lambda i, s=s, o=o: i * o + s)
    xs = [rng.randint(0, 5) for _ in range(rng.randint(1, 4))]
    return "[" + ", ".join(map(ilit, xs)) + "].to_array()", MSeq(xs)


def finite(m):
    return isinstance(m, MSeq) and not m.inf


def idx_model(m, i):
    """index argument on a finite sequence -> position or None"""
    n = len(m)
    if 0 <= i < n:
        return i
    if -n <= i < 0:
        return i + n
    return None


def edge_index(rng, n):
    return rng.choice([-n - 1, -n, -1, 0, n - 1, n, n + 1, rng.randint(-n - 1, n + 1), 1 << 63, 1 << 64, -(1 << 64)])


def derive(rng, pool):
    """one new sequence from earlier ones: (src, model, op)"""
    names = [n for n, _ in pool]
    a_name, a = rng.choice(pool)
    op = rng.choice(["add", "map", "take", "skip", "push", "rpush", "insert", "pop", "set", "swap", "reverse",
                     "repeat_n", "repeat", "mul", "zipmap", "enum", "to_array", "take_while", "skip_until", "add",
                     "map", "take", "skip", "stack_rt", "add_stack", "add_rev", "filter_arr", "gen_rt"])
    E = is_err(a)
    if (not E) and getattr(a, "long_finite", None) is not None and op in (
            "push", "rpush", "insert", "pop", "set", "swap", "stack_rt", "add_stack", "add_rev", "filter_arr", "gen_rt"):
        return None     # would materialise ~2^60 elements; unbounded work belongs to C10
    if op == "add":
        b_name, b = rng.choice(pool)
        src = rng.choice([f"{a_name} + {b_name}", f"add({a_name}, {b_name})", f"{a_name}.add({b_name})"])
        if E or is_err(b):
            return src, Err(), op
        if a.inf and getattr(a, "long_finite", None) is None:
            if not b.inf and len(b) == 0:
                return src, a, op       # adding nothing: the documented identity
            return src, Err(), op
        if getattr(a, "long_finite", None) is not None or getattr(b, "long_finite", None) is not None:
            return None
        if b.inf:
            la, ai = len(a), a.items
            return src, MSeq(fn=lambda i, la=la, ai=ai, b=b: ai[i] if i < la else b.get(i - la)), op
        return src, MSeq(a.items + b.items), op
    if op == "map":
        fs, fm = rng.choice(F_MAP)
        src = f"{a_name}.map({fs})"
        if E:
            return src, Err(), op
        if a.inf:
            r = MSeq(fn=lambda i, a=a, fm=fm: fm(a.get(i)))
            if getattr(a, "long_finite", None) is not None:
                r.long_finite = a.long_finite
            return src, r, op
        return src, MSeq([fm(x) for x in a.items]), op
    if op in ("take", "skip"):
        n = rng.choice([0, 1, 2, 3, 5, 8, 100, -1, 1 << 64]) if (E or a.inf) else rng.choice([0, 1, len(a) - 1, len(a), len(a) + 1, rng.randint(0, len(a) + 1), -1, 1 << 64])
        src = f"{a_name}.{op}({ilit(n)})"
        if E or n < 0:
            return src, Err(), op
        if getattr(a, "long_finite", None) is not None:
            return None
        if n >= (1 << 64):
            # beyond every index: take keeps everything, skip leaves nothing; an error is also fine
            return None
        if a.inf:
            if op == "take":
                return src, MSeq(a.prefix(n)), op
            return src, MSeq(fn=lambda i, a=a, n=n: a.get(i + n)), op
        return src, MSeq(a.items[:n] if op == "take" else a.items[n:]), op
    if op in ("push", "rpush"):
        v = rng.randint(-3, 9)
        src = f"{a_name}.{op}({ilit(v)})"
        if E or a.inf:
            return src, Err(), op
        return src, MSeq(a.items + [v] if op == "push" else [v] + a.items), op
    if op in ("insert", "pop", "set"):
        if E or a.inf:
            i = rng.choice([0, 1, -1])
        else:
            i = edge_index(rng, len(a)) if rng.random() < 0.5 or not len(a) else rng.randint(-len(a), len(a) - 1)
            if op == "insert" and i == len(a):
                i = 0           # insert at len: append or error (book silent) - not generated
        v = rng.randint(-3, 9)
        src = f"{a_name}.{op}({ilit(i)}" + ("" if op == "pop" else f", {ilit(v)}") + ")"
        if E or a.inf:
            return src, Err(), op
        p = idx_model(a, i)
        if p is None:
            return src, Err(), op
        xs = list(a.items)
        if op == "insert":
            xs.insert(p, v)
        elif op == "pop":
            xs.pop(p)
        else:
            xs[p] = v
        return src, MSeq(xs), op
    if op == "swap":
        if E or a.inf:
            i, j = 0, 1
        else:
            n_ = len(a)
            # mostly two valid positions, of either sign and in either order; sometimes the edges
            i, j = [(rng.randint(-n_, n_ - 1) if n_ and rng.random() < 0.7 else edge_index(rng, n_)) for _ in range(2)]
        src = f"{a_name}.swap({ilit(i)}, {ilit(j)})"
        if E or a.inf:
            return src, Err(), op
        p, q = idx_model(a, i), idx_model(a, j)
        if p is None or q is None:
            return src, Err(), op
        xs = list(a.items)
        xs[p], xs[q] = xs[q], xs[p]
        return src, MSeq(xs), op
    if op == "reverse":
        src = f"{a_name}.reverse()"
        if E or (a.inf and getattr(a, "long_finite", None) is None):
            return src, Err(), op
        if a.inf:
            return None
        return src, MSeq(a.items[::-1]), op
    if op in ("repeat_n", "mul"):
        n = rng.choice([0, 1, 2, 3])
        src = f"{a_name}.repeat({ilit(n)})" if op == "repeat_n" else f"({a_name} * {ilit(n)})"
        if E:
            return src, Err(), op
        if getattr(a, "long_finite", None) is not None:
            return None
        if a.inf:
            return src, a, op           # repeating an infinite list is that list
        if n < 0:
            return src, AnyOf(Err(), []) if False else Err(), op
        return src, MSeq(a.items * n), op
    if op == "repeat":
        src = f"{a_name}.repeat()"
        if E:
            return src, Err(), op
        if getattr(a, "long_finite", None) is not None:
            return None
        if a.inf:
            return src, a, op
        if len(a) == 0:
            return src, MSeq([]), op
        xs = a.items
        return src, MSeq(fn=lambda i, xs=xs: xs[i % len(xs)]), op
    if op == "zipmap":
        b_name, b = rng.choice(pool)
        src = f"zip({a_name}, {b_name}).map((t: (int, int))->{{t::item0 * 100 + t::item1}})"
        if E or is_err(b):
            return src, Err(), op
        if getattr(a, "long_finite", None) is not None or getattr(b, "long_finite", None) is not None:
            return None
        if a.inf and b.inf:
            return src, MSeq(fn=lambda i, a=a, b=b: a.get(i) * 100 + b.get(i)), op
        n = min(len(a) if not a.inf else 10 ** 9, len(b) if not b.inf else 10 ** 9)
        return src, MSeq([a.get(i) * 100 + b.get(i) for i in range(n)]), op
    if op == "enum":
        s, o = rng.randint(-2, 3), rng.choice([1, 1, 2, -1])
        args = "" if (s == 0 and o == 1) else (f"{ilit(s)}" if o == 1 else f"{ilit(s)}, {ilit(o)}")
        src = f"{a_name}.enumerate({args}).map((t: (int, int))->{{t::item0 * 1000 + t::item1}})"
        if E:
            return src, Err(), op
        if a.inf:
            r = MSeq(fn=lambda i, a=a, s=s, o=o: (s + i * o) * 1000 + a.get(i))
            if getattr(a, "long_finite", None) is not None:
                r.long_finite = a.long_finite
            return src, r, op
        return src, MSeq([(s + i * o) * 1000 + x for i, x in enumerate(a.items)]), op
    if op == "to_array":
        src = f"{a_name}.to_array()"
        if E or (a.inf and getattr(a, "long_finite", None) is None):
            return src, Err(), op
        if a.inf:
            return None
        return src, MSeq(list(a.items)), op
    if op in ("take_while", "skip_until"):
        ps, pm = rng.choice(F_PRED)
        src = f"{a_name}.{op}({ps})"
        if E:
            return src, Err(), op
        if a.inf:
            # only when the search is certain to stop inside a short prefix
            pref = a.prefix(40)
            hit = next((i for i, x in enumerate(pref) if (not pm(x)) == (op == "take_while")), None)
            if hit is None or getattr(a, "long_finite", None) is not None:
                return None
            if op == "take_while":
                return src, MSeq(pref[:hit]), op
            return src, MSeq(fn=lambda i, a=a, hit=hit: a.get(i + hit)), op
        xs = a.items
        if op == "take_while":
            return src, MSeq(list(itertools.takewhile(pm, xs))), op
        return src, MSeq(list(itertools.dropwhile(lambda x: not pm(x), xs))), op
    if op == "stack_rt":
        src = f"{a_name}.to_stack().to_array()"
        if E or a.inf:
            return src, Err(), op
        return src, MSeq(list(a.items)), op
    if op in ("add_stack", "add_rev"):
        b_name, b = rng.choice(pool)
        fn = "add" if op == "add_stack" else "add_rev"
        src = f"{fn}({a_name}, {b_name}.to_stack())"
        if (not is_err(b)) and getattr(b, "long_finite", None) is not None:
            return None
        if E or is_err(b) or b.inf:
            return src, Err(), op
        if a.inf:
            if len(b) == 0:
                return src, a, op
            return src, Err(), op
        return src, MSeq(a.items + (b.items[::-1] if op == "add_stack" else b.items)), op
    if op == "filter_arr":
        ps, pm = rng.choice(F_PRED)
        src = f"{a_name}.filter({ps}).to_array()"
        if E:
            return src, Err(), op
        if a.inf:
            return None
        return src, MSeq([x for x in a.items if pm(x)]), op
    if op == "gen_rt":
        src = f"{a_name}.to_generator().to_array()"
        if E:
            return src, Err(), op
        if a.inf:
            return None
        return src, MSeq(list(a.items)), op
    return None


def consume(rng, name, m):
    """an observation of a sequence that is not itself a sequence: (src, expect, op)"""
    E = is_err(m)
    long_fin = getattr(m, "long_finite", None) if not E else None
    op = rng.choice(["len", "get", "get", "is_infinite", "nth", "first", "last", "contains", "count", "any", "all",
                     "reduce", "sum", "eq_self", "eq_lit", "bisect", "bsearch", "to_str", "to_gen_take", "hash_eq",
                     "perm", "comb", "mean", "max", "min", "cmp_lit"])
    if op == "len":
        src = f"{name}.len()"
        if E:
            return src, Err(), op
        if long_fin is not None:
            return src, long_fin, op
        return src, Err() if m.inf else len(m), op
    if op == "get":
        if E or m.inf:
            i = rng.choice([0, 1, 5, 17, -1, 1 << 63])
            if long_fin is not None:
                i = rng.choice([0, 1, 5, long_fin - 1, long_fin, -1, -long_fin, -long_fin - 1])
        else:
            i = edge_index(rng, len(m))
        src = rng.choice([f"{name}[{ilit(i)}]", f"{name}.get({ilit(i)})", f"get({name}, {ilit(i)})"])
        if E:
            return src, Err(), op
        if long_fin is not None:
            if 0 <= i < long_fin:
                return src, m.get(i), op
            if -long_fin <= i < 0:
                return src, m.get(i + long_fin), op
            return src, Err(), op
        if m.inf:
            if i < 0:
                return src, Err(), op
            if i >= (1 << 63):
                return src, AnyOf(Err(), m.get(i)), op
            return src, m.get(i), op
        p = idx_model(m, i)
        return src, Err() if p is None else m.items[p], op
    if op == "is_infinite":
        src = f"{name}.is_infinite()"
        if E:
            return src, Err(), op
        return src, (m.inf and long_fin is None), op
    if E or long_fin is not None:
        return None
    if op in ("nth", "first", "last"):
        ps, pm = rng.choice(F_PRED)
        if op == "nth":
            n = rng.choice([0, 1, 2, -1, -2, 5])
            src = f"{name}.nth({ilit(n)}, {ps})"
        elif op == "first":
            n, src = 0, f"{name}.first({ps})"
        else:
            n, src = -1, f"{name}.last({ps})"
        if m.inf:
            if n < 0:
                return src, Err(), op
            hits = [x for x in m.prefix(60) if pm(x)]
            if len(hits) <= n:
                return None         # would search without bound
            return src, Opt(hits[n]), op
        hits = [x for x in m.items if pm(x)]
        if n < 0:
            hits = hits[::-1]
            n = -n - 1
        return src, Opt(hits[n]) if n < len(hits) else NONE, op
    if m.inf:
        if op == "to_gen_take":
            k = rng.choice([0, 1, 3, 7])
            return f"{name}.to_generator().take({k}).to_array()", m.prefix(k), op
        return None
    xs = m.items
    if op == "contains":
        v = rng.randint(-3, 9)
        return f"{name}.contains({ilit(v)})", v in xs, op
    if op == "count":
        v = rng.randint(-3, 9)
        ps, pm = rng.choice(F_PRED)
        if rng.random() < 0.5:
            return f"{name}.count({ilit(v)})", xs.count(v), op
        return f"{name}.count({ps})", sum(1 for x in xs if pm(x)), op
    if op in ("any", "all"):
        ps, pm = rng.choice(F_PRED)
        return f"{name}.{op}({ps})", (any if op == "any" else all)(pm(x) for x in xs), op
    if op == "reduce":
        if rng.random() < 0.5:
            r = 10
            for x in xs:
                r = r * 3 - x
            return f"{name}.reduce(10, (a: int, b: int)->{{a * 3 - b}})", r, op
        if not xs:
            return f"{name}.reduce((a: int, b: int)->{{a - b}})", Err(), op
        r = xs[0]
        for x in xs[1:]:
            r = r - x
        return f"{name}.reduce((a: int, b: int)->{{a - b}})", r, op
    if op == "sum":
        return f"{name}.sum()", sum(xs), op
    if op == "eq_self":
        return f"({name} == {name}.to_array())", True, op
    if op in ("eq_lit", "cmp_lit", "hash_eq"):
        ys = list(xs)
        if rng.random() < 0.5 and ys:
            k = rng.randrange(len(ys))
            ch = rng.random()
            if ch < 0.4:
                ys[k] += rng.choice([-1, 1])
            elif ch < 0.7:
                ys = ys[:k]
            else:
                ys = ys + [0]
        L = "[" + ", ".join(map(ilit, ys)) + "]" if ys else "range(0)"
        if op == "eq_lit":
            return f"({name} == {L})", xs == ys, op
        if op == "cmp_lit":
            return f"cmp({name}, {L})", (xs > ys) - (xs < ys), op
        if xs == ys:
            return f"(hash({name}) == hash({L}))", True, op
        return None
    if op == "bisect":
        srt = sorted(xs)
        v = rng.randint(-3, 9)
        return f"{name}.sort().bisect((x: int)->{{x < {ilit(v)}}})", sum(1 for x in srt if x < v), op
    if op == "bsearch":
        srt = sorted(set(xs))
        v = rng.randint(-3, 9)
        L = "[" + ", ".join(map(ilit, srt)) + "]" if srt else "range(0)"
        exp = Opt(srt.index(v)) if v in srt else NONE
        return f"{L}.binary_search((x: int)->{{cmp(x, {ilit(v)})}})", exp, op
    if op == "to_str":
        return f"{name}.to_str()", AnyOf("[" + ", ".join(map(str, xs)) + "]", "[" + ",".join(map(str, xs)) + "]"), op
    if op == "to_gen_take":
        k = rng.choice([0, 1, 3, 7])
        return f"{name}.to_generator().take({k}).to_array()", xs[:k], op
    if op in ("perm", "comb"):
        if len(xs) > 5:
            return None
        n = len(xs)
        if op == "perm":
            perms = list(itertools.permutations(xs))
            i = rng.randrange(len(perms) + 1)
            if i >= len(perms):
                return f"{name}.permutation({i})", Err(), op
            return f"{name}.permutation({i})", Skip(), op
        k = rng.randint(0, n)
        tot = math.comb(n, k)
        i = rng.randrange(tot + 1)
        if i >= tot:
            return f"{name}.combination({i}, {k})", Err(), op
        return f"{name}.combinations({k}).len()", tot, op
    if op == "mean":
        if not xs:
            return None
        return f"{name}.mean()", batch.Approx(sum(xs) / len(xs), rel=1e-12, abs_=1e-12), op
    if op in ("max", "min"):
        if not xs:
            return f"{name}.{op}()", Err(), op
        return f"{name}.{op}()", (max if op == "max" else min)(xs), op
    return None


def gen_history(rng, n_steps):
    pool, steps = [], []
    for k in range(rng.randint(1, 3)):
        src, m = source_seq(rng)
        name = f"s{len(steps)}"
        steps.append({"name": name, "src": src, "model": m, "op": "source:" + src.split("(")[0].split(".")[0][:6]})
        pool.append((name, m))
    for _ in range(n_steps):
        if rng.random() < 0.6:
            d = derive(rng, pool)
            if d is None:
                continue
            src, m, op = d
            name = f"s{len(steps)}"
            steps.append({"name": name, "src": src, "model": m, "op": op})
            pool.append((name, m))
        else:
            nm, m = rng.choice(pool)
            c = consume(rng, nm, m)
            if c is None:
                continue
            src, exp, op = c
            steps.append({"name": f"c{len(steps)}", "src": src, "expect": exp, "op": "use:" + op})
    return steps


def step_expect(step):
    if "expect" in step:
        return step["expect"]
    m = step["model"]
    if is_err(m):
        return m
    if getattr(m, "long_finite", None) is not None:
        return Trunc("q", m.prefix(PER))
    return m.expect()


def run(ctx):
    ctx.canary()
    rng = ctx.rng
    histories = [gen_history(rng, rng.randint(1, 12)) for _ in range(ctx.pick(700, 20000))]
    results, cases = batch.run_histories(ctx, histories, dump={"per": PER, "nodes": 6000})
    ok = total = 0
    reprs, ops, pairs = {}, {}, {}
    distinct = set()
    for h, outs, case in zip(histories, results, cases):
        distinct.add(tuple(s["src"] for s in h))
        names_repr = {}
        for s, out in zip(h, outs):
            total += 1
            ops[s["op"]] = ops.get(s["op"], 0) + 1
            raw = out.get("raw")
            if raw and raw[0] == "q":
                reprs[raw[3]] = reprs.get(raw[3], 0) + 1
                names_repr[s["name"]] = raw[3]
                # representation of the first operand x operation
                first = s["src"].split(".")[0].split(" ")[0].strip("(")
                if first in names_repr and not s["op"].startswith("source"):
                    key = names_repr[first] + ">" + s["op"]
                    pairs[key] = pairs.get(key, 0) + 1
            if out["kind"] == "unreached":
                continue
            if out["kind"] == "inconclusive":
                ctx.verdicts.inconclusive_case(str(out.get("detail")), case)
                continue
            exp = step_expect(s)
            if batch.matches(exp, out):
                ok += 1
                continue
            if out["kind"] == "panic":
                rel = "panic:" + core.panic_sig(out.get("panic"))
            elif out["kind"] in ("died", "timeout", "violation", "rejected"):
                rel = out["kind"] + ":" + str(out.get("class") or out.get("violation") or "")
            elif isinstance(exp, Err):
                rel = "value_where_error_expected"
            elif out["kind"] == "error":
                rel = "error_where_value_expected"
            else:
                rel = "differs"
            src_repr = ""
            first = s["src"].split(".")[0].split(" ")[0].strip("(")
            if first in names_repr:
                src_repr = names_repr[first]
            sig = f"{s['op']}|{src_repr}|{rel}"
            ctx.verdicts.violation(sig, case, {"step": s["src"], "name": s["name"], "expected": repr(exp)[:600],
                                               "observed": {k: out.get(k) for k in ("kind", "raw", "panic", "err", "class", "violation")},
                                               "history": [f"let {x['name']} = {x['src']};" for x in h]})
    samples = [{"history": [f"let {x['name']} = {x['src']};" for x in h], "observed": [o.get("raw") for o in outs]}
               for h, outs in list(zip(histories, results))[:2]]
    cov = {"evaluations": total, "distinct_nontrivial": len(distinct),
           "rule": "one evaluation = one step (a derived sequence or an observation of one) of a generated history compared "
                   "with the list model; distinct = distinct histories (tuples of step sources); every history has >= 1 derived step or observation",
           "samples": samples, "agreeing": ok, "histories": len(histories),
           "representations_seen": reprs, "operations": ops, "representation_x_operation": pairs}
    return {"coverage": cov, "broken": None if ok > 0 and total > 100 else "nothing agreed",
            "assumptions": ["element type int; tuples only through zip/enumerate", f"only the first {PER} elements of a dumped sequence are compared",
                            "insert at index len, take/skip with counts >= 2^64 and searches that cannot stop on an infinite sequence are not generated",
                            "a negative count for take/skip is an error (ill-defined request); negative repeat counts are not generated (book silent)"]}


def replay(ctx, rec):
    case = rec["case"]
    obs = ctx.run([case], name="C15_replay")[0]
    fail = batch.program_failure(obs)
    name = rec["detail"]["name"]
    out = fail if fail is not None else batch.binding_outcome(obs.get("bindings", {}).get(name))
    print("history:", *rec["detail"]["history"], sep="\n  ")
    print("expected:", rec["detail"]["expected"])
    print("observed:", {k: out.get(k) for k in ("kind", "raw", "panic", "err", "violation")})
    was = rec["detail"]["observed"]
    same = (was.get("kind") == out.get("kind")) and (was.get("raw") == out.get("raw"))
    if same:
        print(f"VIOLATION property={ctx.prop} replay=<replayed: same observation as recorded>")
        return 1
    print("replay: observation differs from the recorded violation (not reproduced)")
    return 0
