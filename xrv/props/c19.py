"""C19 Derived equality, hash, order and text are coherent; sorting is right.
Monitors:
 (A) law checker over observed relation tables: for generated triples (x, y, z) of nested values the
     interpreter evaluates every relation the library derives for the type; the laws (equivalence,
     hash agreement and range, total order consistent with eq, derived operators, format "" = to_str)
     are checked offline on the recorded table, plus a structural model of eq / lexicographic cmp.
 (B) specifier model written from std_conventions.md for the unambiguous part of the grammar.
 (C) sort / order statistics through the interpreter against a reference stable sort, comparators
     with ties (stability visible through tags), comparators failing with an error on a chosen pair,
     and violations placed at the k-th comparison by a call-limit sweep; after every failure the
     byte account and the ledger of live objects must be back at zero once everything is dropped.
 (D) sanitizer lane: the two files with unsafe code compiled unchanged into /verif/iso-unsafe and
     run under Miri (every failing comparison index for the listed lengths), under ASan (long
     inputs) and natively, with leak / duplication / stability monitors of their own."""
import functools
import itertools
import os
import re
import shutil
import subprocess
import time
from concurrent.futures import ThreadPoolExecutor

from .. import batch, core
from ..surface import flit, ilit, slit

LEVEL = "exploration"
ISO = os.path.join(core.ROOT, "iso-unsafe")

# ---------------------------------------------------------------------------------------------
# (A) values of nested types: (type text, model value, [expression variants])

INTS = [0, 1, 2, -1, 3, 1 << 64, -(1 << 63)]
FLOATS = [0.0, -0.0, 1.0, 1.5, -2.5, 1e300]
STRS = ["", "a", "b", "ab", "é", "a b"]


class TY:
    def __init__(self, kind, args=()):
        self.kind, self.args = kind, tuple(args)

    def text(self):
        k = self.kind
        if k in ("int", "float", "str", "bool"):
            return k
        if k == "tuple":
            return "(" + ", ".join(a.text() for a in self.args) + ")"
        return {"seq": "Sequence", "opt": "Optional", "stack": "Stack", "set": "Set"}[k] + "<" + self.args[0].text() + ">" if k != "map" else f"Mapping<int, {self.args[0].text()}>"

    def __repr__(self):
        return self.text()


def rand_type(rng, depth, allow_unordered=True):
    r = rng.random()
    if depth <= 0 or r < 0.3:
        return TY(rng.choice(["int", "int", "str", "bool", "float"]))
    if r < 0.5:
        return TY("tuple", [rand_type(rng, depth - 1, allow_unordered) for _ in range(rng.randint(1, 3))])
    if r < 0.7:
        return TY("seq", [rand_type(rng, depth - 1, allow_unordered)])
    if r < 0.82:
        return TY("opt", [rand_type(rng, depth - 1, allow_unordered)])
    if r < 0.9:
        return TY("stack", [rand_type(rng, depth - 1, allow_unordered)])
    if allow_unordered and r < 0.95:
        return TY("set", [TY(rng.choice(["int", "str"]))])
    if allow_unordered:
        return TY("map", [rand_type(rng, depth - 1, False)])
    return TY("int")


def gen_value(rng, t, small=True):
    """-> (model, expression).  model: python value with structural ==; expression of type t (needs the declared type for empties)"""
    k = t.kind
    if k == "int":
        v = rng.choice(INTS[:5] if rng.random() < 0.8 else INTS)
        return v, ilit(v)
    if k == "float":
        v = rng.choice(FLOATS)
        return v, flit(v)
    if k == "str":
        v = rng.choice(STRS)
        return v, slit(v)
    if k == "bool":
        v = rng.random() < 0.5
        return v, "true" if v else "false"
    if k == "tuple":
        parts = [gen_value(rng, a) for a in t.args]
        return tuple(p[0] for p in parts), "(" + ", ".join(p[1] for p in parts) + ("," if len(parts) == 1 else "") + ")"
    if k == "seq":
        n = rng.choice([0, 1, 1, 2, 2, 3])
        parts = [gen_value(rng, t.args[0]) for _ in range(n)]
        model = [p[0] for p in parts]
        et = t.args[0].text()
        if not parts:
            e = "[]"
            if parts == [] and rng.random() < 0.5:
                one = gen_value(rng, t.args[0])[1]
                e = f"[{one}].skip(1)"
            return model, e
        lit = "[" + ", ".join(p[1] for p in parts) + "]"
        form = rng.choice(["lit", "lit", "concat", "push", "lazy", "rev", "arr"])
        if form == "concat" and n >= 2:
            cut = rng.randint(1, n - 1)
            return model, "([" + ", ".join(p[1] for p in parts[:cut]) + "] + [" + ", ".join(p[1] for p in parts[cut:]) + "])"
        if form == "push":
            return model, "[" + ", ".join(p[1] for p in parts[:-1]) + "]" + f".push({parts[-1][1]})" if n >= 2 else lit
        if form == "lazy":
            return model, f"{lit}.map((q_: {et})->{{q_}})"
        if form == "rev":
            return model, "[" + ", ".join(p[1] for p in reversed(parts)) + "].reverse()"
        if form == "arr":
            return model, f"{lit}.to_generator().to_array()"
        return model, lit
    if k == "opt":
        if rng.random() < 0.3:
            return ("none",), "none()"
        m, e = gen_value(rng, t.args[0])
        return ("some", m), f"some({e})"
    if k == "stack":
        n = rng.choice([0, 1, 2, 2, 3])
        parts = [gen_value(rng, t.args[0]) for _ in range(n)]
        model = ("stack", tuple(p[0] for p in parts))
        if not parts:
            return model, "stack()"
        if rng.random() < 0.5:
            return model, "[" + ", ".join(p[1] for p in parts) + "].to_stack()"
        return model, "stack()" + "".join(f".push({p[1]})" for p in parts)
    if k == "set":
        n = rng.choice([0, 1, 2, 3, 4])
        parts = [gen_value(rng, t.args[0]) for _ in range(n)]
        model = frozenset(p[0] for p in parts)
        order = list(parts)
        rng.shuffle(order)
        e = f"set<{t.args[0].text()}>()"
        if rng.random() < 0.4 and order:
            e += ".update([" + ", ".join(p[1] for p in order) + "])"
        else:
            e += "".join(f".add({p[1]})" for p in order)
        if rng.random() < 0.3:
            extra = gen_value(rng, t.args[0])
            if extra[0] not in model:
                e += f".add({extra[1]}).remove({extra[1]})"
        return model, e
    if k == "map":
        n = rng.choice([0, 1, 2, 3])
        keys = rng.sample([0, 1, 2, 3, 5, 8], n)
        vals = [gen_value(rng, t.args[0]) for _ in keys]
        model = ("map", frozenset(zip(keys, [_freeze(v[0]) for v in vals])))
        order = list(zip(keys, vals))
        rng.shuffle(order)
        e = "mapping<int>()"
        if not order:
            # a never-filled mapping has no value type yet: give it one entry and take it away
            d = gen_value(rng, t.args[0])
            return model, f"mapping<int>().set(99, {d[1]}).discard(99)"
        e += "".join(f".set({kk}, {vv[1]})" for kk, vv in order)
        if rng.random() < 0.3:
            d = gen_value(rng, t.args[0])
            e += f".set(77, {d[1]}).discard(77)"
        return model, e
    raise ValueError(k)


def _freeze(m):
    if isinstance(m, list):
        return ("list", tuple(_freeze(x) for x in m))
    if isinstance(m, tuple):
        return tuple(_freeze(x) for x in m)
    if isinstance(m, float):
        return ("f", m + 0.0 if m != 0 else 0.0)
    return m


def model_eq(a, b):
    return _freeze(a) == _freeze(b)


def model_cmp(t, a, b):
    """lexicographic order for the types where the book's description is unambiguous, else None"""
    k = t.kind
    if k in ("int", "float", "str"):
        return (a > b) - (a < b)
    if k == "bool":
        return (a > b) - (a < b)
    if k == "tuple":
        for tt, x, y in zip(t.args, a, b):
            c = model_cmp(tt, x, y)
            if c is None:
                return None
            if c:
                return c
        return 0
    if k == "seq":
        for x, y in zip(a, b):
            c = model_cmp(t.args[0], x, y)
            if c is None:
                return None
            if c:
                return c
        return (len(a) > len(b)) - (len(a) < len(b))
    return None


def model_to_str(t, m, sep):
    """documented renderings (sequence.md / tuple.md): items separated by commas, in square brackets / parentheses; None where the book gives no format"""
    k = t.kind
    if k == "int":
        return str(m)
    if k == "str":
        return m
    if k == "bool":
        return "true" if m else "false"
    if k == "tuple":
        parts = [model_to_str(a, x, sep) for a, x in zip(t.args, m)]
        return None if None in parts else "(" + sep.join(parts) + ")"
    if k == "seq":
        parts = [model_to_str(t.args[0], x, sep) for x in m]
        return None if None in parts else "[" + sep.join(parts) + "]"
    return None


RELS = ["eq", "ne", "hash", "cmp", "lt", "le", "gt", "ge", "min", "max", "to_str", "format"]


def capability_cases(types):
    cases = []
    for t in types:
        for f in RELS:
            if f == "hash" or f == "to_str":
                body = f"{f}(x)"
            elif f == "format":
                body = "format(x, '')"
            else:
                body = f"{f}(x, y)"
            cases.append({"id": f"cap-{t.text()}-{f}", "source": f"fn p(x: {t.text()}, y: {t.text()})->bool{{ is_error({body}) }}", "compile_only": True, "meta": {"t": t.text(), "f": f}})
    return cases


def law_item(rng, t, caps, uid):
    vals = [gen_value(rng, t) for _ in range(2)]
    # many ties: the third is often a re-construction of one of the first two
    if rng.random() < 0.6:
        src = rng.choice(vals)
        for _ in range(20):
            again = gen_value(rng, t)
            if model_eq(again[0], src[0]):
                break
        else:
            again = src
        vals.append(again)
    else:
        vals.append(gen_value(rng, t))
    rng.shuffle(vals)
    names = [f"x{uid}", f"y{uid}", f"z{uid}"]
    decls = "\n".join(f"let {n}: {t.text()} = {v[1]};" for n, v in zip(names, vals))
    cols = []
    parts = []
    pairs = [(0, 0), (0, 1), (1, 0), (1, 2), (0, 2), (2, 0)]
    for f in ("eq", "cmp", "ne", "lt", "le", "gt", "ge"):
        if f in caps:
            for i, j in pairs:
                cols.append((f, i, j))
                parts.append(f"{f}({names[i]}, {names[j]})")
    if "hash" in caps:
        for i in range(3):
            cols.append(("hash", i, i))
            parts.append(f"hash({names[i]})")
    if "to_str" in caps:
        for i in range(3):
            cols.append(("to_str", i, i))
            parts.append(f"to_str({names[i]})")
    if "format" in caps and "to_str" in caps:
        cols.append(("format", 0, 0))
        parts.append(f"format({names[0]}, '')")
    if "eq" in caps:
        for f in ("min", "max"):
            if f in caps:
                for i, j in ((0, 1), (1, 2)):
                    cols.append((f + "_is_first", i, j))
                    parts.append(f"eq({f}({names[i]}, {names[j]}), {names[i]})")
                    cols.append((f + "_is_second", i, j))
                    parts.append(f"eq({f}({names[i]}, {names[j]}), {names[j]})")
    return {"decls": decls, "expr": "(" + ", ".join(parts) + ("," if len(parts) == 1 else "") + ")", "cols": cols, "models": [v[0] for v in vals], "t": t,
            "srcs": [v[1] for v in vals], "op": "laws:" + t.text(), "fam": "laws"}


def sign(x):
    return (x > 0) - (x < 0)


def check_laws(it, row):
    """row: list of python values aligned with it['cols'] -> list of violated law names"""
    tab = {}
    for (f, i, j), v in zip(it["cols"], row):
        tab[(f, i, j)] = v
    bad = []
    m = it["models"]
    t = it["t"]

    def g(f, i, j):
        return tab.get((f, i, j))
    for (f, i, j), v in tab.items():
        if f == "eq":
            if i == j and v is not True:
                bad.append("eq_not_reflexive")
            if g("eq", j, i) is not None and g("eq", j, i) != v:
                bad.append("eq_not_symmetric")
            if v != model_eq(m[i], m[j]):
                bad.append("eq_differs_from_structural_equality")
            if v and g("hash", i, i) is not None and g("hash", j, j) is not None and g("hash", i, i) != g("hash", j, j):
                bad.append("equal_values_hash_differently")
            if g("cmp", i, j) is not None and (g("cmp", i, j) == 0) != v:
                bad.append("cmp_zero_iff_eq_broken")
            if g("ne", i, j) is not None and g("ne", i, j) == v:
                bad.append("ne_is_not_the_negation_of_eq")
        if f == "hash" and not (isinstance(v, int) and 0 <= v < (1 << 64)):
            bad.append("hash_out_of_range")
        if f == "cmp":
            if i == j and v != 0:
                bad.append("cmp_not_reflexive")
            if g("cmp", j, i) is not None and sign(g("cmp", j, i)) != -sign(v):
                bad.append("cmp_not_antisymmetric")
            mc = model_cmp(t, m[i], m[j])
            if mc is not None and sign(v) != mc:
                bad.append("cmp_differs_from_lexicographic_model")
            for name, want in (("lt", v < 0), ("le", v <= 0), ("gt", v > 0), ("ge", v >= 0)):
                if g(name, i, j) is not None and g(name, i, j) != want:
                    bad.append(name + "_disagrees_with_cmp")
        if f in ("min_is_first", "max_is_first"):
            c = g("cmp", i, j)
            second = g(f.replace("first", "second"), i, j)
            if v is not True and second is not True:
                bad.append(f[:3] + "_returns_neither_argument")
            if c is not None:
                if f.startswith("min") and ((c < 0 and v is not True) or (c > 0 and second is not True)):
                    bad.append("min_disagrees_with_cmp")
                if f.startswith("max") and ((c > 0 and v is not True) or (c < 0 and second is not True)):
                    bad.append("max_disagrees_with_cmp")
    # transitivity on the triple
    if g("eq", 0, 1) and g("eq", 1, 2) and g("eq", 0, 2) is False:
        bad.append("eq_not_transitive")
    c01, c12, c02 = g("cmp", 0, 1), g("cmp", 1, 2), g("cmp", 0, 2)
    if None not in (c01, c12, c02):
        if c01 <= 0 and c12 <= 0 and c02 > 0:
            bad.append("cmp_not_transitive")
        if c01 >= 0 and c12 >= 0 and c02 < 0:
            bad.append("cmp_not_transitive")
    for i in range(3):
        ts = g("to_str", i, i)
        if ts is not None:
            want = {model_to_str(t, m[i], ", "), model_to_str(t, m[i], ",")}
            if None not in want and ts not in want:
                bad.append("to_str_is_not_the_component_wise_rendering")
    if g("format", 0, 0) is not None and g("format", 0, 0) != g("to_str", 0, 0):
        bad.append("format_empty_differs_from_to_str")
    for i in range(3):
        for j in range(3):
            if i < j and model_eq(m[i], m[j]) and g("to_str", i, i) is not None and g("to_str", i, i) != g("to_str", j, j) and t.kind not in ("set", "map", "float") and "Set" not in t.text() and "Mapping" not in t.text() and "float" not in t.text():
                bad.append("equal_values_render_differently")
    return sorted(set(bad))


def plain(d):
    """stripped dump -> python value for relation tables"""
    k = d[0]
    if k in ("i", "s", "b"):
        return d[1]
    if k == "t":
        return [plain(x) for x in d[1]]
    return d


# ---------------------------------------------------------------------------------------------
# (B) format specifier model (unambiguous subset of std_conventions.md)

def group3(digits, sep):
    out = []
    while len(digits) > 3:
        out.append(digits[-3:])
        digits = digits[:-3]
    out.append(digits)
    return sep.join(reversed(out))


def fmt_model(value, spec):
    """-> set of acceptable strings (centering may put the odd fill on either side)"""
    fill, align, sign_, alt, zero, width, grouping, mode = spec
    neg = value < 0 if not isinstance(value, str) else False
    if isinstance(value, str):
        body, sgn, prefix = value, "", ""
    else:
        a = -value if neg else value
        if mode in ("b", "B"):
            body = bin(a)[2:]
        elif mode in ("o", "O"):
            body = oct(a)[2:]
        elif mode == "x":
            body = hex(a)[2:]
        elif mode == "X":
            body = hex(a)[2:].upper()
        else:
            body = str(a)
        if grouping:
            body = group3(body, grouping)
        prefix = ("0" + mode) if alt and mode else ""
        sgn = "-" if neg else {"+": "+", " ": " "}.get(sign_, "")
    text_len = len(sgn) + len(prefix) + len(body)
    pad = max(0, (width or 0) - text_len)
    if zero:
        fill_c, al = "0", "="
    else:
        fill_c, al = (fill or " "), (align or ">")
    # the book says "x or X: hexadecimal" and gives the alt prefix only: the case of the digits under X is not specified
    bodies = {body, body.lower()} if mode == "X" else {body}
    out = set()
    for body in bodies:
        if al == ">":
            out.add(fill_c * pad + sgn + prefix + body)
        elif al == "<":
            out.add(sgn + prefix + body + fill_c * pad)
        elif al == "=":
            out.add(sgn + prefix + fill_c * pad + body)
        else:
            lo, hi = pad // 2, pad - pad // 2
            out |= {fill_c * lo + sgn + prefix + body + fill_c * hi, fill_c * hi + sgn + prefix + body + fill_c * lo}
    return out


def spec_text(spec):
    fill, align, sign_, alt, zero, width, grouping, mode = spec
    return (fill or "") + (align or "") + (sign_ or "") + ("#" if alt else "") + ("0" if zero else "") + (str(width) if width is not None else "") + (grouping or "") + (mode or "")


def format_items(ctx):
    rng = ctx.rng
    items = []
    for _ in range(ctx.pick(1500, 30000)):
        is_str = rng.random() < 0.25
        if is_str:
            v = rng.choice(["", "a", "ab", "héllo", "x y", "0", "-"])
            align = rng.choice([None, "<", ">", "^"])
            fill = rng.choice([None, "*", "_", "0", "~", " "]) if align else None
            spec = (fill, align, None, False, False, rng.choice([None, 1, 3, 6, 11]), None, None)
            vx = slit(v)
        else:
            v = rng.choice([0, 1, -1, 7, 12, -12, 255, 1000, -1000, 1234567, -1234567, 10 ** 12, 1 << 64, -(1 << 63), 999, 1000000])
            mode = rng.choice([None, None, None, "b", "o", "x", "X", "B", "O"])
            zero = rng.random() < 0.25
            align = None if zero else rng.choice([None, None, "<", ">", "^", "="])
            fill = rng.choice([None, "*", "_", "x", " "]) if align else None
            grouping = rng.choice([None, None, ",", "_"]) if (mode is None and not zero) else None
            alt = rng.random() < 0.3 and mode is not None and not zero and align != "="
            spec = (fill, align, rng.choice([None, None, "+", "-", " "]), alt, zero, rng.choice([None, 1, 4, 9, 16, 30]), grouping, mode)
            vx = ilit(v)
        st = spec_text(spec)
        items.append({"expr": f"format({vx}, {slit(st)})", "op": "format:" + ("str" if is_str else "int"), "fam": "format", "expect_set": fmt_model(v, spec), "spec": st, "value": v})
    # floats: width / fill / align / sign / precision with fixed notation only
    for _ in range(ctx.pick(400, 8000)):
        v = rng.choice([0.0, 1.0, 1.5, -1.5, 2.25, 1234.5, -0.125, 1e6, 123456.789, 0.001])
        prec = rng.choice([0, 1, 2, 3, 6])
        width = rng.choice([None, 4, 10, 14])
        zero = rng.random() < 0.2
        align = None if zero else rng.choice([None, "<", ">", "^"])
        fill = rng.choice([None, "*", " "]) if align else None
        sg = rng.choice([None, "+", " ", "-"])
        mode = rng.choice(["", "f"])
        body = "%.*f" % (prec, abs(v))
        # binary floats: python's rounding of the exact value is the reference (ties cannot occur for these values except where both agree)
        sgn = "-" if v < 0 else {"+": "+", " ": " "}.get(sg, "")
        pad = max(0, (width or 0) - len(sgn) - len(body))
        if zero:
            exp = {sgn + "0" * pad + body}
        else:
            f_c, al = fill or " ", align or ">"
            exp = {f_c * pad + sgn + body} if al == ">" else {sgn + body + f_c * pad} if al == "<" else {f_c * (pad // 2) + sgn + body + f_c * (pad - pad // 2), f_c * (pad - pad // 2) + sgn + body + f_c * (pad // 2)}
        st = (fill or "") + (align or "") + (sg or "") + ("0" if zero else "") + (str(width) if width is not None else "") + f".{prec}" + mode
        items.append({"expr": f"format({flit(v)}, {slit(st)})", "op": "format:float", "fam": "format", "expect_set": exp, "spec": st, "value": v})
    return items


# ---------------------------------------------------------------------------------------------
# (C) sorting through the interpreter

def keys_pattern(rng, n):
    p = rng.randrange(8)
    if p == 6:
        return [(n - i) // 3 for i in range(n)]             # weakly descending: ties inside a descending stretch
    if p == 7:
        return [(i // 2) if (i // 5) % 2 == 0 else n - i // 2 for i in range(n)]
    if p == 0:
        return list(range(n))
    if p == 1:
        return list(range(n, 0, -1))
    if p == 2:
        return [i % 7 for i in range(n)]
    if p == 3:
        return [rng.randrange(3) for _ in range(n)]
    if p == 4:
        return [rng.randrange(1000) for _ in range(n)]
    return [i if i % 12 < 6 else -i for i in range(n)]


CMP_KEY = "(a: (int, int), b: (int, int))->{cmp(a::item0, b::item0)}"


def pairs_lit(keys):
    return "[" + ", ".join(f"({k}, {i})" for i, k in enumerate(keys)) + "]"


def sort_items(ctx):
    rng = ctx.rng
    items = []
    lens = list(range(0, 26)) + [30, 33, 40, 47, 64, 100, 150, 200]
    for _ in range(ctx.pick(500, 8000)):
        n = rng.choice(lens)
        keys = keys_pattern(rng, n)
        tagged = list(zip(keys, range(n)))
        stable = sorted(tagged, key=lambda p: p[0])
        stable_rev = sorted(tagged, key=lambda p: -p[0])
        src = pairs_lit(keys)
        form = rng.choice(["sort", "sort", "sort_reverse", "n_largest", "n_smallest", "nth_largest", "nth_smallest", "median", "rank_eq", "rank_avg", "max", "min", "sort_lazy", "sort_twice"])
        per = {"per": 210, "nodes": 2000}
        if form == "sort":
            items.append({"expr": f"{src}.sort({CMP_KEY})", "expect": [tuple(p) for p in stable], "op": "sort", "fam": "sort", "n": n, "dump": per})
        elif form == "sort_lazy":
            items.append({"expr": f"{src}.map((p: (int, int))->{{p}}).sort({CMP_KEY})", "expect": [tuple(p) for p in stable], "op": "sort_lazy_input", "fam": "sort", "n": n, "dump": per})
        elif form == "sort_twice":
            items.append({"expr": f"{src}.sort({CMP_KEY}).sort((a: (int, int), b: (int, int))->{{cmp(a::item1, b::item1)}})", "expect": [tuple(p) for p in tagged], "op": "sort_twice", "fam": "sort", "n": n, "dump": per})
        elif form == "sort_reverse":
            items.append({"expr": f"{src}.sort_reverse({CMP_KEY})", "expect": [tuple(p) for p in stable_rev], "op": "sort_reverse", "fam": "sort", "n": n, "dump": per})
        elif form in ("n_largest", "n_smallest"):
            k = rng.choice([0, 1, 2, n // 2, n, n + 3])
            ref = (stable_rev if form == "n_largest" else stable)[:k]
            items.append({"expr": f"{src}.{form}({k}, {CMP_KEY})", "expect_keys": sorted(p[0] for p in ref), "op": form, "fam": "select", "n": n, "input": tagged, "dump": per})
        elif form in ("nth_largest", "nth_smallest", "median"):
            if form == "median":
                k = n // 2
                e = f"{src}.median({CMP_KEY})"
                ref = stable
            else:
                k = rng.choice([0, 1, n // 2, max(0, n - 1), n, -1])
                e = f"{src}.{form}({k}, {CMP_KEY})"
                ref = stable_rev if form == "nth_largest" else stable
            want = ref[k][0] if 0 <= k < n else None
            items.append({"expr": e, "expect_key": want, "op": form, "fam": "select", "n": n, "input": tagged, "k": k, "dump": per})
        elif form in ("rank_eq", "rank_avg"):
            if n == 0:
                continue
            probe = rng.choice(keys + [max(keys) + 1])
            below = sum(1 for k in keys if k < probe)
            same = sum(1 for k in keys if k == probe)
            if same == 0:
                want = batch.Err()
            elif form == "rank_eq":
                want = below + 1
            else:
                want = batch.Approx((below + 1 + below + same) / 2, rel=1e-12)
            items.append({"expr": f"{src}.{form}(({probe}, -1), {CMP_KEY})", "expect": want, "op": form, "fam": "rank", "n": n, "dump": per})
        else:
            if n == 0:
                continue
            lt = "(a: (int, int), b: (int, int))->{a::item0 < b::item0}"
            ref = max(tagged, key=lambda p: (p[0], -p[1])) if form == "max" else min(tagged, key=lambda p: (p[0], p[1]))
            items.append({"expr": f"{src}.{form}({lt})", "expect": tuple(ref), "op": form + "_first_extreme", "fam": "select", "n": n, "dump": per})
    return items


def failing_sort_cases(ctx):
    """(1) comparator returning an error on one ordered pair of tags, (2) call-limit sweep placing a violation at the k-th comparison"""
    rng = ctx.rng
    cases = []
    for _ in range(ctx.pick(150, 2500)):
        n = rng.choice([2, 3, 5, 8, 12, 20, 21, 25, 33, 48])
        keys = keys_pattern(rng, n)
        i, j = rng.sample(range(n), 2)
        fn = rng.choice(["sort", "sort", "sort_reverse", "n_largest", "n_smallest", "nth_smallest", "median"])
        cmpf = f"(a: (int, int), b: (int, int))->{{if(a::item1 == {i} && b::item1 == {j}, error('E-pair'), cmp(a::item0, b::item0))}}"
        arg = {"sort": "", "sort_reverse": "", "n_largest": f"{max(1, n // 3)}, ", "n_smallest": f"{max(1, n // 3)}, ", "nth_smallest": f"{n // 2}, ", "median": ""}[fn]
        src = f"let r = {pairs_lit(keys)}.{fn}({arg}{cmpf});"
        cases.append({"id": f"C19-errpair-{len(cases)}", "source": src, "exports": ["r"], "dump": {"per": 60, "nodes": 400}, "meta": {"kind": "error_pair", "fn": fn, "n": n, "keys": keys, "pair": [i, j]}})
    sweeps = ctx.pick(12, 120)
    for s in range(sweeps):
        n = rng.choice([3, 6, 10, 16, 20, 21, 24, 33])
        keys = keys_pattern(rng, n)
        fn = rng.choice(["sort", "sort", "n_largest", "nth_smallest", "sort_reverse"])
        arg = {"sort": "", "sort_reverse": "", "n_largest": f"{max(1, n // 3)}, ", "nth_smallest": f"{n // 2}, "}[fn]
        cmpf = "(a: (int, int), b: (int, int))->{(a::item0 > b::item0).if(1, (a::item0 < b::item0).if(-1, 0))}"
        src = f"let r = {pairs_lit(keys)}.{fn}({arg}{cmpf});"
        cases.append({"id": f"C19-sweep-{s}-learn", "source": src, "exports": ["r"], "dump": {"per": 60, "nodes": 400}, "meta": {"kind": "sweep_learn", "fn": fn, "n": n, "sweep": s}})
    return cases


# ---------------------------------------------------------------------------------------------
# (D) sanitizer lane

def run_cmd(cmd, env=None, timeout=3600, cwd=ISO):
    t0 = time.time()
    try:
        p = subprocess.run(cmd, cwd=cwd, env=dict(core.ENV, **(env or {})), stdout=subprocess.PIPE, stderr=subprocess.STDOUT, text=True, timeout=timeout)
        return p.returncode, p.stdout, time.time() - t0
    except subprocess.TimeoutExpired as e:
        return -999, (e.stdout or "") if isinstance(e.stdout, str) else "", time.time() - t0


def lane_shards(ctx):
    """list of (lane, argv) in the order they are started"""
    seed = str(ctx.seed)
    shards = []
    if ctx.tier == "quick":
        miri_sort = [(0, 8, None), (9, 10, None), (11, 12, None)] + [(n, n, p) for n in (21, 33) for p in range(8)]
        miri_heap = [(0, 9)]
        asan = [("sort", 0, 64, "40"), ("sort", 200, 203, "30"), ("sort", 1000, 1000, "12"), ("sort", 2000, 2000, "8"), ("heap", 0, 40, "")]
    else:
        miri_sort = [(0, 8, None), (9, 10, None), (11, 12, None)] + [(n, n, p) for n in range(13, 49) for p in range(8)]
        miri_heap = [(0, 9), (10, 12), (13, 14)]
        asan = [("sort", 0, 128, "60"), ("sort", 129, 260, "30"), ("sort", 500, 520, "20"), ("sort", 1000, 1010, "12"), ("sort", 2000, 2004, "10"), ("heap", 0, 64, "")]
    for lo, hi, p in miri_sort:
        shards.append(("miri", ["sort", str(lo), str(hi), seed, "18446744073709551615"] + ([str(p)] if p is not None else [])))
    if ctx.tier != "quick":
        for n in (64, 100, 150, 200):
            for p in range(8):
                shards.append(("miri", ["sort", str(n), str(n), seed, "40", str(p)]))
    for lo, hi in miri_heap:
        shards.append(("miri", ["heap", str(lo), str(hi), seed]))
    for mode, lo, hi, mk in asan:
        shards.append(("asan", [mode, str(lo), str(hi), seed] + ([mk] if mk else [])))
        shards.append(("native", [mode, str(lo), str(hi), seed] + ([mk] if mk else [])))
    return shards


def run_lanes(ctx):
    tgt = os.path.join(ISO, "target")
    out = {"built": {}, "shards": [], "ub_reports": 0}
    rc, log, dt = run_cmd(["cargo", "build", "--offline", "--quiet"], env={"CARGO_TARGET_DIR": tgt})
    if rc != 0:
        raise core.Broken("iso-unsafe does not build: " + log[-1500:])
    out["built"]["native"] = round(dt, 1)
    native = os.path.join(tgt, "debug", "iso-unsafe")
    rc, log, dt = run_cmd(["cargo", "+nightly", "build", "--offline", "--quiet", "--target", "x86_64-unknown-linux-gnu"],
                          env={"CARGO_TARGET_DIR": os.path.join(tgt, "asan"), "RUSTFLAGS": "-Zsanitizer=address -Cforce-frame-pointers=yes"})
    asan = os.path.join(tgt, "asan", "x86_64-unknown-linux-gnu", "debug", "iso-unsafe")
    asan_ok = rc == 0 and os.path.exists(asan)
    out["built"]["asan"] = round(dt, 1) if asan_ok else "unavailable: " + log[-300:]
    # one miri invocation builds the miri sysroot + the crate; the shards then reuse it
    rc, log, dt = run_cmd(["cargo", "+nightly", "miri", "run", "--offline", "--quiet", "--", "canary"], env={"CARGO_TARGET_DIR": tgt, "MIRIFLAGS": ""}, timeout=1800)
    # the canary forgets one element on purpose: the lane's own monitor must say so, and Miri's leak checker reports it too
    miri_ok = "CANARY-OK" in log and "memory leaked" in log
    out["built"]["miri"] = round(dt, 1) if miri_ok else "unavailable: " + log[-300:]
    out["miri_leak_canary_reported"] = "memory leaked" in log
    if not miri_ok:
        raise core.Broken("miri lane unavailable: " + log[-800:])
    rc, log, _ = run_cmd([native, "canary"])
    if "CANARY-OK" not in log:
        raise core.Broken("leak canary of the isolated lane silent: " + log[-300:])

    def one(sh):
        lane, argv = sh
        if lane == "miri":
            cmd, env = ["cargo", "+nightly", "miri", "run", "--offline", "--quiet", "--"] + argv, {"CARGO_TARGET_DIR": tgt, "MIRIFLAGS": ""}
        elif lane == "asan":
            if not asan_ok:
                return lane, argv, None, "", 0.0
            cmd, env = [asan] + argv, {"ASAN_OPTIONS": "halt_on_error=1:abort_on_error=0:detect_leaks=1"}
        else:
            cmd, env = [native] + argv, {}
        rc, log, dt = run_cmd(cmd, env=env, timeout=ctx.pick(1500, 7200))
        return lane, argv, rc, log, dt

    with ThreadPoolExecutor(max_workers=core.NPROC) as ex:
        results = list(ex.map(one, lane_shards(ctx)))
    tot = {"sorts": 0, "failing_sorts": 0, "comparisons": 0, "heap_ops": 0, "failing_heap_runs": 0}
    for lane, argv, rc, log, dt in results:
        rec = {"lane": lane, "argv": " ".join(argv), "seconds": round(dt, 1)}
        if rc is None:
            rec["skipped"] = "lane unavailable"
            out["shards"].append(rec)
            continue
        m = re.search(r"ISO-OK (.*)", log)
        case = {"id": f"C19-iso-{lane}-{'-'.join(argv)}", "lane": lane, "argv": argv, "source": "(isolated lane, no xray program)"}
        if rc == -999:
            ctx.verdicts.inconclusive_case(f"{lane} shard {' '.join(argv)} hit the wall-clock watchdog", case)
            rec["inconclusive"] = "watchdog"
        elif "MONITOR-VIOLATION" in log:
            line = re.search(r"MONITOR-VIOLATION (.*)", log).group(1)
            ctx.verdicts.violation(f"iso|{lane}|monitor|" + re.sub(r"\d+", "N", line)[:90], case, {"expected": "element multiset, stability, failure passed on, no leak", "observed": line[:600]})
            rec["violation"] = line[:200]
        elif "Undefined Behavior" in log or "ERROR: AddressSanitizer" in log or "ERROR: LeakSanitizer" in log:
            out["ub_reports"] += 1
            first = next((l for l in log.splitlines() if "Undefined Behavior" in l or "ERROR: " in l), "?")
            where = next((l.strip() for l in log.splitlines() if "/repo/src/util/" in l), "")
            ctx.verdicts.violation(f"iso|{lane}|" + re.sub(r"0x[0-9a-f]+|\d+", "N", first)[:100], case, {"expected": "no report", "observed": (first + " @ " + where)[:800], "log_tail": log[-1500:]})
            rec["violation"] = first[:200]
        elif rc != 0 or not m:
            ctx.verdicts.inconclusive_case(f"{lane} shard {' '.join(argv)} ended with rc={rc} and no verdict line", case)
            rec["inconclusive"] = f"rc={rc}: " + log[-200:]
        else:
            kv = dict(x.split("=") for x in m.group(1).split())
            rec["observed"] = {k: kv[k] for k in ("sorts", "failing_sorts", "comparisons", "max_n", "heap_ops", "failing_heap_runs", "drops")}
            if lane == "miri":
                for k in tot:
                    tot[k] += int(kv[k])
        out["shards"].append(rec)
    out["miri_totals"] = tot
    return out


# ---------------------------------------------------------------------------------------------

def run(ctx):
    ctx.canary()
    rng = ctx.rng
    total = ok = 0
    # ---- (D) first: it is the long pole and runs in its own processes
    lanes_future = ThreadPoolExecutor(max_workers=1).submit(run_lanes, ctx)
    # ---- (A) laws
    types = []
    seen = set()
    for _ in range(ctx.pick(60, 400)):
        t = rand_type(rng, rng.choice([1, 2, 2, 3]))
        if t.text() not in seen:
            seen.add(t.text())
            types.append(t)
    capobs = ctx.run(capability_cases(types), name="C19_caps")
    caps = {}
    k = 0
    for t in types:
        for f in RELS:
            if (capobs[k].get("compile") or {}).get("ok"):
                caps.setdefault(t.text(), set()).add(f)
            k += 1
    items = []
    for n in range(ctx.pick(2500, 60000)):
        t = rng.choice(types)
        c = caps.get(t.text(), set())
        if "eq" not in c:
            continue
        items.append(law_item(rng, t, c, n))
    outs, cases = batch.run_items(ctx, items, per_program=8, dump={"per": 200, "nodes": 4000}, name="C19_laws")
    law_instances = {}
    for it, out, case in zip(items, outs, cases):
        total += 1
        if out["kind"] == "inconclusive":
            ctx.verdicts.inconclusive_case(str(out)[:200], case)
            continue
        solo = batch.solo_case(ctx, it, dump={"per": 200, "nodes": 4000})
        if out["kind"] != "value":
            ctx.verdicts.violation(f"laws|{it['t'].kind}|relations_not_evaluable:{out['kind']}", solo, {"type": it["t"].text(), "values": it["srcs"], "expected": "a table of relation results",
                                                                                                      "observed": {k2: out.get(k2) for k2 in ("kind", "raw", "err", "class", "panic")}})
            continue
        row = plain(out["dump"])
        bad = check_laws(it, row)
        for (f, _, _) in it["cols"]:
            law_instances[f] = law_instances.get(f, 0) + 1
        if bad:
            for b in bad[:2]:
                ctx.verdicts.violation(f"laws|{it['t'].kind}|{b}", solo, {"type": it["t"].text(), "values": it["srcs"], "expected": "law holds: " + b,
                                                                         "observed": {f"{f}({i},{j})": v for (f, i, j), v in zip(it["cols"], row)}})
        else:
            ok += 1
    # ---- (B) format
    fitems = format_items(ctx)
    outs, cases = batch.run_items(ctx, fitems, per_program=30, name="C19_format")
    fmt_ok = 0
    for it, out, case in zip(fitems, outs, cases):
        total += 1
        if out["kind"] == "inconclusive":
            ctx.verdicts.inconclusive_case(str(out)[:200], case)
            continue
        got = out["dump"][1] if out["kind"] == "value" and out["dump"][0] == "s" else None
        if got in it["expect_set"]:
            ok += 1
            fmt_ok += 1
        else:
            ctx.verdicts.violation(f"{it['op']}|{_spec_class(it['spec'])}", batch.solo_case(ctx, it), {"expr": it["expr"], "expected": sorted(it["expect_set"]), "observed": {k2: out.get(k2) for k2 in ("kind", "raw")}})
    # ---- (C) sort family vs reference
    sitems = sort_items(ctx)
    outs, cases = batch.run_items(ctx, sitems, per_program=6, dump={"per": 210, "nodes": 3000}, name="C19_sort")
    sort_ok = 0
    for it, out, case in zip(sitems, outs, cases):
        total += 1
        if out["kind"] == "inconclusive":
            ctx.verdicts.inconclusive_case(str(out)[:200], case)
            continue
        good, why = judge_sort(it, out)
        if good:
            ok += 1
            sort_ok += 1
        else:
            ctx.verdicts.violation(f"{it['fam']}|{it['op']}|{why}", batch.solo_case(ctx, it, dump={"per": 210, "nodes": 3000}),
                                   {"expr": it["expr"][:400], "expected": str(it.get("expect", it.get("expect_keys", it.get("expect_key"))))[:300], "observed": str(out.get("raw"))[:400]})
    # ---- failing comparators
    fcases = failing_sort_cases(ctx)
    fobs = ctx.run(fcases, name="C19_fail")
    err_seen = err_cases = 0
    sweep_runs = []
    for c, o in zip(fcases, fobs):
        total += 1
        m = c["meta"]
        fail = batch.program_failure(o)
        if fail is not None and fail["kind"] == "inconclusive":
            ctx.verdicts.inconclusive_case(str(fail)[:200], c)
            continue
        if fail is not None:
            ctx.verdicts.violation(f"failing_cmp|{m['fn']}|{fail['kind']}", c, {"expected": "error value or result", "observed": fail})
            continue
        ad = o.get("after_drop", {})
        if ad.get("acct_bytes", 0) != 0 or ad.get("live_objects", 0) != 0:
            ctx.verdicts.violation(f"failing_cmp|{m['fn']}|leak_after_{m['kind']}", c, {"expected": "0 bytes / 0 live objects after drop", "observed": ad})
            continue
        b = batch.binding_outcome(o["bindings"].get("r"))
        if m["kind"] == "error_pair":
            err_cases += 1
            if b["kind"] == "error":
                if "E-pair" in str(b.get("raw")):
                    err_seen += 1
                    ok += 1
                else:
                    ctx.verdicts.violation(f"failing_cmp|{m['fn']}|foreign_error", c, {"expected": "the comparator's error or the sorted result", "observed": b.get("raw")})
            elif b["kind"] == "value":
                ok += 1             # the pair was never compared in that order (the value itself is judged by the sort family above)
            else:
                ctx.verdicts.violation(f"failing_cmp|{m['fn']}|{b['kind']}", c, {"expected": "the comparator's error or the sorted result", "observed": {k2: b.get(k2) for k2 in ("kind", "raw", "panic")}})
        else:
            calls = (o.get("instantiate", {}).get("snap") or {}).get("ud_calls", 0)
            sweep_runs.append((c, calls, b.get("raw")))
            ok += 1
    # the sweep proper: for each learnt comparison count place the call limit at every k (sampled in the quick tier)
    sw_cases = []
    for c, calls, raw in sweep_runs:
        ks = list(range(1, calls + 2))
        if ctx.tier == "quick" and len(ks) > 14:
            ks = sorted(set(rng.sample(ks, 10) + [1, 2, calls, calls + 1]))
        for kk in ks:
            cc = dict(c, id=f"{c['id']}-k{kk}", limits={"ud_call": kk}, meta=dict(c["meta"], kind="sweep", k=kk, calls=calls, unlimited=raw))
            sw_cases.append(cc)
    sw_obs = ctx.run(sw_cases, name="C19_sweep")
    placed = 0
    for c, o in zip(sw_cases, sw_obs):
        total += 1
        m = c["meta"]
        fail = batch.program_failure(o)
        if fail is not None and fail["kind"] == "inconclusive":
            ctx.verdicts.inconclusive_case(str(fail)[:200], c)
            continue
        placed += 1
        ad = o.get("after_drop", {})
        want_viol = m["k"] <= m["calls"]
        if want_viol:
            good = fail is not None and fail["kind"] == "violation" and fail.get("violation") == "MaximumUDCall"
        else:
            good = fail is None and batch.binding_outcome(o["bindings"].get("r")).get("raw") == m["unlimited"]
        if not good:
            ctx.verdicts.violation(f"failing_cmp|{m['fn']}|violation_at_kth_comparison_mishandled", c, {"expected": "MaximumUDCall" if want_viol else "the unlimited result", "observed": fail or "a different value"})
            continue
        if ad.get("acct_bytes", 0) != 0 or ad.get("live_objects", 0) != 0:
            ctx.verdicts.violation(f"failing_cmp|{m['fn']}|leak_after_violation", c, {"expected": "0 bytes / 0 live objects after drop", "observed": ad})
            continue
        ok += 1
    # ---- valgrind memcheck over the whole interpreter on the sort / heap paths (the unsafe code as the interpreter really calls it)
    vg = {"cases": 0, "clean": 0, "available": shutil.which("valgrind") is not None}
    if vg["available"]:
        vcases = []
        pool = [c for c in fcases if c["meta"]["kind"] == "error_pair"][:ctx.pick(6, 60)] + sw_cases[:ctx.pick(6, 60)]
        pool += [dict(batch.solo_case(ctx, it, dump={"per": 60, "nodes": 400}), meta={"fn": it["op"]}) for it in sitems[:ctx.pick(8, 80)]]
        for k, c in enumerate(pool):
            vcases.append(dict(c, id=f"C19-vg-{k}"))
        vobs = core.run_cases(ctx.binary, vcases, "C19_valgrind", case_timeout_ms=300000, nproc=core.NPROC, chunk=max(1, len(vcases) // core.NPROC),
                              wrapper=["valgrind", "--quiet", "--error-exitcode=99", "--leak-check=no", "--track-origins=no"], as_gib=None)
        for c, o in zip(vcases, vobs):
            total += 1
            vg["cases"] += 1
            if o.get("died") and o.get("rc") == 99:
                ctx.verdicts.violation(f"valgrind|{c['meta'].get('fn')}|memcheck_error", c, {"expected": "no memcheck report", "observed": (o.get("stderr") or "")[-1500:]})
            elif o.get("died") or o.get("timeout") or o.get("harness_error"):
                ctx.verdicts.inconclusive_case("valgrind lane: " + str({k2: o.get(k2) for k2 in ("died", "timeout", "rc", "harness_error")})[:200], c)
            else:
                vg["clean"] += 1
                ok += 1
    lanes = lanes_future.result()
    lanes["valgrind_memcheck_through_the_interpreter"] = vg
    total += len(lanes["shards"])
    samples = [{"law_triple": items[0]["srcs"], "type": items[0]["t"].text()}, {"format": fitems[0]["expr"], "expected": sorted(fitems[0]["expect_set"])},
               {"sort": sitems[0]["expr"][:300]}, {"isolated_shard": lanes["shards"][0]}]
    cov = {"evaluations": total, "distinct_nontrivial": len({i["expr"] + i.get("decls", "") for i in items}) + len({i["expr"] for i in fitems}) + len({i["expr"] for i in sitems}) + len(sw_cases) + len(lanes["shards"]),
           "rule": "one evaluation = one value triple with its whole relation table, one format call, one sort / order-statistic call, one failing-comparator run, one placed call limit, "
                   "or one shard of the isolated sanitizer lane; distinct = distinct texts / shard arguments", "samples": samples, "agreeing": ok,
           "law_triples": len(items), "types_in_workload": len(types), "relation_instances": law_instances, "format_calls": len(fitems), "format_agreeing": fmt_ok,
           "sort_family_calls": len(sitems), "sort_family_agreeing": sort_ok, "error_pair_runs": err_cases, "error_pair_runs_that_hit_the_pair": err_seen,
           "violation_sweeps": len(sweep_runs), "limits_placed": placed, "sweep_exhaustive": ctx.tier != "quick", "isolated_lane": lanes}
    broken = None
    if ok < 500 or err_seen == 0 or placed == 0 or lanes["miri_totals"]["failing_sorts"] == 0:
        broken = "a monitor observed nothing"
    return {"coverage": cov, "broken": broken, "assumptions": [
        "order statistics (n_largest, nth_*, median) are compared by key: any element of the tie class a stable sort would select is accepted",
        "format model covers the unambiguous part of the specifier grammar (no explicit fill/align together with the 0 flag, no grouping in non-decimal modes, floats in fixed notation only)",
        "centering may put the odd fill character on either side", "structural cmp model for int/float/str/bool/tuple/Sequence; Optional, Stack are checked by the laws only",
        "the isolated lane compiles /repo/src/util/trysort.rs and try_heap.rs unchanged (#[path]) with stand-ins for crate::forward_err and crate::xvalue::XResult"]}


def _spec_class(st):
    return re.sub(r"\d+", "N", st)[:20]


def judge_sort(it, out):
    if "expect" in it:
        e = it["expect"]
        if isinstance(e, list):
            if out["kind"] != "value" or out["dump"][0] != "q":
                return False, out["kind"]
            got = [tuple(x[1] for x in p[1]) for p in out["dump"][1]]
            want = [tuple(p) for p in e]
            if out["dump"][2] and len(got) >= 200:
                want = want[:len(got)]
            if got == want:
                return True, ""
            if sorted(got) != sorted(want):
                return False, "not_a_permutation_of_the_input"
            if [g[0] for g in got] != [w[0] for w in want]:
                return False, "not_ordered"
            return False, "not_stable"
        if isinstance(e, tuple):
            if out["kind"] != "value":
                return False, out["kind"]
            got = tuple(x[1] for x in out["dump"][1])
            return (got == e), "not_the_first_extreme" if got[0] == e[0] else "not_an_extreme"
        return batch.matches(e, out), "value_differs"
    if "expect_keys" in it:
        if out["kind"] != "value" or out["dump"][0] != "q":
            return False, out["kind"]
        got = [tuple(x[1] for x in p[1]) for p in out["dump"][1]]
        if any(g not in set(it["input"]) for g in got) or len(set(got)) != len(got):
            return False, "elements_not_from_the_input_or_duplicated"
        return (sorted(g[0] for g in got) == it["expect_keys"]), "wrong_selection"
    want = it["expect_key"]
    if want is None:
        return (out["kind"] == "error"), "out_of_range_index_not_an_error"
    if out["kind"] != "value":
        return False, out["kind"]
    got = tuple(x[1] for x in out["dump"][1])
    if got not in set(it["input"]):
        return False, "element_not_from_the_input"
    return (got[0] == want), "wrong_order_statistic"


def replay(ctx, rec):
    c = rec["case"]
    if c.get("lane"):
        tgt = os.path.join(ISO, "target")
        run_cmd(["cargo", "build", "--offline", "--quiet"], env={"CARGO_TARGET_DIR": tgt})
        if c["lane"] == "miri":
            cmd, env = ["cargo", "+nightly", "miri", "run", "--offline", "--quiet", "--"] + c["argv"], {"CARGO_TARGET_DIR": tgt, "MIRIFLAGS": ""}
        elif c["lane"] == "asan":
            run_cmd(["cargo", "+nightly", "build", "--offline", "--quiet", "--target", "x86_64-unknown-linux-gnu"], env={"CARGO_TARGET_DIR": os.path.join(tgt, "asan"), "RUSTFLAGS": "-Zsanitizer=address -Cforce-frame-pointers=yes"})
            cmd, env = [os.path.join(tgt, "asan", "x86_64-unknown-linux-gnu", "debug", "iso-unsafe")] + c["argv"], {"ASAN_OPTIONS": "halt_on_error=1:detect_leaks=1"}
        else:
            cmd, env = [os.path.join(tgt, "debug", "iso-unsafe")] + c["argv"], {}
        rc, log, _ = run_cmd(cmd, env=env)
        print(log[-2500:])
        if "ISO-OK" in log and rc == 0:
            print("replay: not reproduced")
            return 0
        print(f"VIOLATION property={ctx.prop} replay=<replayed>")
        return 1
    o = ctx.run([c], name="C19_replay")[0]
    print(c["source"][:1500], c.get("limits"))
    fail = batch.program_failure(o)
    now = fail or {n: b.get("dump") for n, b in (o.get("bindings") or {}).items()}
    print("expected:", str(rec["detail"].get("expected"))[:600])
    print("observed now:", str(now)[:800], "after_drop:", o.get("after_drop"))
    was = rec["detail"].get("observed")
    same = False
    if isinstance(was, dict) and "kind" in was and fail is not None:
        same = was.get("kind") == fail.get("kind")
    elif fail is None:
        b = batch.binding_outcome((o.get("bindings") or {}).get("r0") or (o.get("bindings") or {}).get("r"))
        if isinstance(was, dict) and "raw" in was:
            same = b.get("raw") == was["raw"]
        elif isinstance(was, str):
            same = str(b.get("raw"))[:400] == was
        elif isinstance(was, dict):
            same = True         # a relation table: re-check the laws by re-running the check is the authoritative way
        ad = o.get("after_drop", {})
        if "leak" in rec.get("signature", ""):
            same = ad.get("acct_bytes", 0) != 0 or ad.get("live_objects", 0) != 0
    if same:
        print(f"VIOLATION property={ctx.prop} replay=<replayed>")
        return 1
    print("replay: not reproduced")
    return 0
