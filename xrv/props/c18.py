"""C18 Strings are code-point sequences; literals mean what they say.
Oracle: Python str (a sequence of code points) + a literal encoder written from string_literals.md."""
from .. import batch, core
from ..batch import AnyOf, Err, Gen, NONE, Opt, Skip

LEVEL = "exploration"

ALPHA = ["a", "b", "c", "A", "B", "z", " ", "\t", "1", ",", "é", "ß", "Σ", "σ", "€", "ẞ", "́", "İ", "ǆ",
         "\U0001F600", "\U0001D518", " ", "%", "x"]
WS = {" ", "\t", "\n", "\r", " ", " ", "\u000b", "\u000c", "\u0085", " ", " "}


def sclass(s):
    if s == "":
        return "empty"
    m = max(len(c.encode("utf8")) for c in s)
    return f"b{m}"


def rand_str(rng, maxlen=8, alpha=None):
    alpha = alpha or ALPHA
    n = rng.choice([0, 1, 1, 2, 3, 4, 5, 6, maxlen])
    mode = rng.random()
    if mode < 0.25:
        pool = [c for c in alpha if ord(c[0]) < 128]
    elif mode < 0.4:
        pool = rng.sample(alpha, 2)
    else:
        pool = alpha
    return "".join(rng.choice(pool) for _ in range(n))


def lit(s, rng=None, style=None):
    """a literal denoting exactly s, in one of the documented spellings"""
    styles = ["dq", "sq", "uni", "fence", "fence2"]
    if "\\" not in s and "\n" not in s and "\r" not in s and "\0" not in s and "\t" not in s:
        styles.append("raw")
    if style is None:
        style = rng.choice(styles) if rng else "dq"
    if style == "raw" and "raw" not in styles:
        style = "dq"

    def esc(ch, quote, force_uni):
        if ch == "\\":
            return "\\\\"
        if ch == quote:
            return "\\" + quote
        if ch == "\n":
            return "\\n"
        if ch == "\r":
            return "\\r"
        if ch == "\t":
            return "\\t"
        if ch == "\0":
            return "\\0"
        if force_uni and (ord(ch) > 126 or ord(ch) < 32):
            return "\\u{%x}" % ord(ch)
        return ch

    if style == "dq":
        return '"' + "".join(esc(c, '"', False) for c in s) + '"'
    if style == "sq":
        return "'" + "".join(esc(c, "'", False) for c in s) + "'"
    if style == "uni":
        return '"' + "".join(esc(c, '"', True) for c in s) + '"'
    if style in ("fence", "fence2"):
        n = 1 if style == "fence" else 2
        # inside a fenced literal a quote needs no escape unless followed by the fence
        body = ""
        for i, c in enumerate(s):
            if c == '"' and s[i + 1:i + 1 + n] == "#" * n:
                body += '\\"'
            elif c == '"' and i == len(s) - 1:
                body += '\\"'
            elif c == '"':
                body += '"'
            else:
                body += esc(c, None, False)
        return "#" * n + '"' + body + '"' + "#" * n
    if style == "raw":
        q = '"' if '"' not in s else "'"
        if q in s:
            return lit(s, style="dq")
        return "r" + q + s + q
    raise ValueError(style)


def idx_ok(i, n, allow_end=False):
    """model of an index argument: in range -> value, negative in range -> wrap or error"""
    hi = n + (1 if allow_end else 0)
    if 0 <= i < hi:
        return i
    return None


def py_split_n(s, sep, n):
    return s.split(sep, n)


def model_get(s, i):
    n = len(s)
    if 0 <= i < n:
        return s[i]
    if -n <= i < 0:
        return AnyOf(s[i], Err())
    return Err()


def model_find(s, needle, start=None):
    if needle == "":
        return AnyOf(Err(), Opt(start or 0))
    if start is None:
        r = s.find(needle)
        return Opt(r) if r >= 0 else NONE
    if start < 0:
        return Err()
    if start > len(s):
        return AnyOf(Err(), NONE)
    r = s.find(needle, start)
    return Opt(r) if r >= 0 else NONE


def model_rfind(s, needle, end=None):
    if needle == "":
        return AnyOf(Err(), Opt(len(s) if end is None else end))
    if end is None:
        r = s.rfind(needle)
        return Opt(r) if r >= 0 else NONE
    if end < 0:
        return Err()
    if end > len(s):
        r = s.rfind(needle)
        return AnyOf(Err(), Opt(r) if r >= 0 else NONE)
    r = s.rfind(needle, 0, end)
    return Opt(r) if r >= 0 else NONE


def model_substring(s, a, b=None):
    n = len(s)
    if a < 0:
        return Err()
    if b is None:
        if a > n:
            return Err()
        return s[a:]
    if b < 0:
        # negative end: the implementation wraps; the book is silent
        bb = b + n
        if bb < a or bb < 0:
            return Err()
        return AnyOf(s[a:bb], Err())
    if b < a:
        return Err()
    if b > n:
        # end beyond the string: error, or clamped like the optional form
        return AnyOf(Err(), s[a:] if a <= n else Err())
    return s[a:b]


def model_partition(s, sep):
    if sep == "":
        return Skip()
    i = s.find(sep)
    return (s[:i], s[i + len(sep):]) if i >= 0 else (s, "")


def model_rpartition(s, sep):
    if sep == "":
        return Skip()
    i = s.rfind(sep)
    return (s[:i], s[i + len(sep):]) if i >= 0 else ("", s)


def strip_pred(chars):
    return "(c: str)->{" + " || ".join(f"c == {lit(ch)}" for ch in chars) + "}"


def gen_items(ctx):
    rng = ctx.rng
    items = []

    def add(expr, expect, fn, *strs):
        items.append({"expr": expr, "expect": expect, "op": fn, "cls": "/".join(sclass(s) for s in strs)})

    N = ctx.pick(60, 1500)

    def S(s):
        return lit(s, rng)

    def needle_for(s):
        r = rng.random()
        if s and r < 0.6:
            i = rng.randrange(len(s))
            j = min(len(s), i + rng.choice([1, 1, 2, 3]))
            return s[i:j]
        if r < 0.7:
            return ""
        return rand_str(rng, 2)

    for _ in range(N):
        s, t = rand_str(rng), rand_str(rng)
        n = len(s)
        add(f"len({S(s)})", n, "len", s)
        add(f"({S(s)} + {S(t)})", s + t, "add", s, t)
        add(f"({S(s)} + {S(t)}).len()", len(s + t), "add_len", s, t)
        add(f"cmp({S(s)}, {S(t)})", (s > t) - (s < t), "cmp", s, t)
        add(f"({S(s)} == {S(t)})", s == t, "eq", s, t)
        add(f"({S(s)} == {S(s)})", True, "eq", s, s)
        add(f"{S(s)}.chars()", list(s), "chars", s)
        add(f"{S(s)}.reverse()", s[::-1], "reverse", s)
        for i in {-n - 1, -n, -1, 0, n - 1, n, n + 1, rng.randint(-2, n + 2), 1 << 64}:
            add(f"{S(s)}[{i if i >= 0 else '(' + str(i) + ')'}]", model_get(s, i), "get", s)
        k = rng.choice([0, 1, 2, 3, -1])
        add(f"({S(s)} * {k if k >= 0 else '(-1)'})", s * k if k >= 0 else AnyOf(Err(), ""), "mul", s)
        # searching
        nd = needle_for(s)
        add(f"{S(s)}.find({S(nd)})", model_find(s, nd), "find", s, nd)
        add(f"{S(s)}.rfind({S(nd)})", model_rfind(s, nd), "rfind", s, nd)
        st = rng.choice([0, 1, n - 1, n, n + 1, rng.randint(0, n + 1)])
        if st >= 0:
            add(f"{S(s)}.find({S(nd)}, {st})", model_find(s, nd, st), "find3", s, nd)
            add(f"{S(s)}.rfind({S(nd)}, {st})", model_rfind(s, nd, st), "rfind3", s, nd)
            if nd:
                cexp = model_find(s, nd, st)
                add(f"{S(s)}.contains({S(nd)}, {st})", Err() if isinstance(cexp, Err) else (AnyOf(Err(), False) if isinstance(cexp, AnyOf) else cexp.has), "contains3", s, nd)
        if nd:
            add(f"{S(s)}.contains({S(nd)})", nd in s, "contains", s, nd)
        pre = s[:rng.randint(0, n)] if rng.random() < 0.6 else rand_str(rng, 3)
        suf = s[rng.randint(0, n):] if rng.random() < 0.6 else rand_str(rng, 3)
        add(f"{S(s)}.starts_with({S(pre)})", s.startswith(pre), "starts_with", s, pre)
        add(f"{S(s)}.ends_with({S(suf)})", s.endswith(suf), "ends_with", s, suf)
        add(f"{S(s)}.remove_prefix({S(pre)})", s[len(pre):] if s.startswith(pre) else s, "remove_prefix", s, pre)
        add(f"{S(s)}.remove_suffix({S(suf)})", (s[:len(s) - len(suf)] if s.endswith(suf) else s), "remove_suffix", s, suf)
        # slicing
        a = rng.choice([0, 0, 1, n - 1, n, n + 1, rng.randint(0, n + 1), -1])
        b = rng.choice([0, 1, n - 1, n, n + 1, rng.randint(0, n + 2), -1, -n])
        A = a if a >= 0 else f"({a})"
        B = b if b >= 0 else f"({b})"
        add(f"{S(s)}.substring({A}, {B})", model_substring(s, a, b), "substring3", s)
        add(f"{S(s)}.substring({A})", model_substring(s, a), "substring2", s)
        if b >= 0:
            add(f"{S(s)}.substring({A}, some({B}))", model_substring(s, a, b), "substring_opt", s)
        # partition / split / replace
        add(f"{S(s)}.partition({S(nd)})", model_partition(s, nd), "partition", s, nd)
        add(f"{S(s)}.rpartition({S(nd)})", model_rpartition(s, nd), "rpartition", s, nd)
        if nd:
            add(f"{S(s)}.split({S(nd)})", Gen(s.split(nd)), "split", s, nd)
            c = rng.choice([0, 1, 2, 3, 5])
            add(f"{S(s)}.split({S(nd)}, {c})", AnyOf(Gen(s.split(nd, c)), Gen(s.split(nd, c - 1)) if c >= 1 else Gen([s])), "split_n", s, nd)
            add(f"{S(s)}.rsplit({S(nd)}, {c})", AnyOf(s.rsplit(nd, c), s.rsplit(nd, c - 1) if c >= 1 else [s]), "rsplit_n", s, nd)
            r = rand_str(rng, 2)
            add(f"{S(s)}.replace({S(nd)}, {S(r)})", s.replace(nd, r), "replace", s, nd)
            add(f"{S(s)}.replace({S(nd)}, {S(r)}, {c})", s.replace(nd, r, c), "replace_n", s, nd)
        # stripping
        padded = rng.choice(["", " ", "\t ", " "]) + s + rng.choice(["", " ", " \t", "  "])
        def lws(x):
            i = 0
            while i < len(x) and x[i] in WS:
                i += 1
            return x[i:]
        def rws(x):
            i = len(x)
            while i > 0 and x[i - 1] in WS:
                i -= 1
            return x[:i]
        add(f"{S(padded)}.strip()", rws(lws(padded)), "strip", padded)
        add(f"{S(padded)}.lstrip()", lws(padded), "lstrip", padded)
        add(f"{S(padded)}.rstrip()", rws(padded), "rstrip", padded)
        if s:
            cs = list({s[0], s[-1], rng.choice(ALPHA)})
            pred = strip_pred(cs)
            ls = s.lstrip("".join(cs))
            rs = s.rstrip("".join(cs))
            add(f"{S(s)}.lstrip({pred})", ls, "lstrip_p", s)
            add(f"{S(s)}.rstrip({pred})", rs, "rstrip_p", s)
            add(f"{S(s)}.strip({pred})", s.strip("".join(cs)), "strip_p", s)
        # case
        add(f"{S(s)}.lower()", s.lower(), "lower", s)
        add(f"{S(s)}.upper()", s.upper(), "upper", s)
        add(f"{S(s)}.lower().len()", len(s.lower()), "lower_len", s)
        add(f"{S(s)}.upper().len()", len(s.upper()), "upper_len", s)
        lo = s.lower()
        if lo:
            j = rng.randrange(len(lo))
            add(f"{S(s)}.lower()[{j}]", lo[j], "lower_get", s)
            add(f"{S(s)}.lower().substring({j})", lo[j:], "lower_substring", s)
            add(f"({S(s)}.lower() + {S(t)}).chars()", list(lo + t), "lower_add_chars", s, t)
        up = s.upper()
        if up:
            j = rng.randrange(len(up))
            add(f"{S(s)}.upper()[{j}]", up[j], "upper_get", s)
        plain = [c for c in s if c not in ("́", "ǆ", "İ")]
        ps = "".join(plain)
        add(f"{S(ps)}.is_whitespace()", all(c in WS for c in ps), "is_whitespace", ps)
        if all(c.isalpha() or c in " 1,%\t " or ord(c) > 0xffff for c in ps):
            add(f"{S(ps)}.is_lower()", all(c.islower() for c in ps), "is_lower", ps)
            add(f"{S(ps)}.is_upper()", all(c.isupper() for c in ps), "is_upper", ps)
        # join
        parts = [rand_str(rng, 3) for _ in range(rng.randint(0, 4))]
        arr = "[" + ", ".join(S(p) for p in parts) + "]" if parts else '[].map((x: int)->{"q"})'
        add(f"{arr}.join()", "".join(parts), "join", *parts)
        add(f"{arr}.join({S(t)})", t.join(parts), "join_sep", t, *parts)
        add(f"{arr}.to_generator().join({S(t)})", t.join(parts), "join_gen", t, *parts)
        # code points
        if len(s) == 1:
            add(f"{S(s)}.code_point()", ord(s), "code_point", s)
        else:
            add(f"{S(s)}.code_point()", Err(), "code_point", s)
        add(f"{S(s)}.to_str()", s, "to_str", s)
        # format_replace
        tmpl = "".join(rng.choice(["%a", "%b", "%%", "%é", "x", "é", "\U0001F600", " ", "%\U0001F600"]) for _ in range(rng.randint(0, 5)))
        if rng.random() < 0.2:
            tmpl += "%"
        out, i = "", 0
        while i < len(tmpl):
            if tmpl[i] == "%" and i + 1 < len(tmpl):
                out += "<" + tmpl[i + 1] + ">"
                i += 2
            else:
                out += tmpl[i]
                i += 1
        add(f'format_replace({S(tmpl)}, (c: str)->{{"<" + c + ">"}})', out, "format_replace", tmpl)
    # literal spellings: every style must denote the same text
    for _ in range(ctx.pick(150, 4000)):
        s = rand_str(rng, 10, ALPHA + ['"', "'", "\\", "\n", "#", "{", "}", "\0", "\r"])
        for style in ("dq", "sq", "uni", "fence", "fence2", "raw"):
            try:
                L = lit(s, style=style)
            except ValueError:
                continue
            add(f"({L}, {L}.len())", (s, len(s)), "literal_" + style, s)
    for _ in range(ctx.pick(60, 1500)):
        cp = rng.choice([0x41, 0xe9, 0x20ac, 0x1F600, 0x10FFFF, 0x7f, 0x80, 0x7ff, 0x800, 0xffff, 0x10000, 1, 0xd7ff, 0xe000, rng.randrange(0x110000)])
        if 0xd800 <= cp < 0xe000:
            continue
        digits = rng.choice(["%x", "%X", "%06x", "%04x"]) % cp
        if len(digits) > 6:
            continue
        add('"\\u{' + digits + '}"', chr(cp), "literal_uescape", chr(cp))
    # formatted strings are the join of to_str / format of their parts
    for _ in range(ctx.pick(100, 2500)):
        parts, expect_parts, listed = [], [], []
        for _ in range(rng.randint(0, 4)):
            k = rng.random()
            if k < 0.4:
                txt = rand_str(rng, 4, [c for c in ALPHA if c != "%"] + ["{{", "}}"])
                parts.append(txt.replace('"', ""))
                lit_txt = txt.replace("{{", "{").replace("}}", "}")
                expect_parts.append(lit_txt)
                listed.append(lit(lit_txt, style="uni"))
            elif k < 0.7:
                v = rng.randint(-50, 5000)
                e = f"({v} + 1)"
                parts.append("{" + e + "}")
                expect_parts.append(str(v + 1))
                listed.append(f"to_str({e})")
            elif k < 0.85:
                sv = rand_str(rng, 3, ["a", "é", "\U0001F600", "b"])
                e = lit(sv, style="sq")
                parts.append("{" + e + "}")
                expect_parts.append(sv)
                listed.append(f"to_str({e})")
            else:
                v = rng.randint(0, 999)
                spec = rng.choice(["04", ">6", "<5", "x", "+"])
                parts.append("{" + str(v) + ":" + spec + "}")
                model = {"04": "%04d" % v, ">6": "%6d" % v, "<5": "%-5d" % v, "x": "%x" % v, "+": "%+d" % v}[spec]
                expect_parts.append(model)
                listed.append(f'format({v}, "{spec}")')
        f = 'f"' + "".join(parts) + '"'
        joined = "[" + ", ".join(listed) + "].join()" if listed else '""'
        add(f"({f}, {f} == {joined})", ("".join(expect_parts), True), "fstring", "".join(expect_parts))
    rng.shuffle(items)
    return items


def relation(expect, out):
    if out["kind"] == "panic":
        return "panic:" + core.panic_sig(out.get("panic"))
    if out["kind"] in ("died", "timeout"):
        return out["kind"]
    if out["kind"] in ("rejected", "violation", "missing"):
        return out["kind"] + ":" + str(out.get("class") or out.get("violation") or "")
    if isinstance(expect, Err):
        return "value_where_error_expected"
    if out["kind"] == "error":
        return "error_where_value_expected"
    return "differs"


def run(ctx):
    ctx.canary()
    items = gen_items(ctx)
    outs, cases = batch.run_items(ctx, items, per_program=30)
    ok = 0
    matrix = {}
    distinct = set()
    for item, out, case in zip(items, outs, cases):
        distinct.add(item["expr"])
        matrix.setdefault(item["op"], {}).setdefault(item["cls"].split("/")[0], 0)
        matrix[item["op"]][item["cls"].split("/")[0]] += 1
        if out["kind"] == "inconclusive":
            ctx.verdicts.inconclusive_case(str(out.get("detail")), case)
            continue
        if batch.matches(item["expect"], out):
            ok += 1
            continue
        sig = f"{item['op']}|{item['cls']}|{relation(item['expect'], out)}"
        ctx.verdicts.violation(sig, batch.solo_case(ctx, item), {
            "expr": item["expr"], "expected": repr(item["expect"]),
            "observed": {k: out.get(k) for k in ("kind", "raw", "panic", "err", "class", "violation")}})
    samples = [{"expr": it["expr"], "expected": repr(it["expect"]), "observed": o.get("raw")} for it, o in list(zip(items, outs))[:4]]
    cov = {"evaluations": len(items), "distinct_nontrivial": len(distinct),
           "rule": "one evaluation = one string expression evaluated by the interpreter and compared with the Python str model; "
                   "distinct = distinct expression texts", "samples": samples, "agreeing": ok,
           "function_x_string_class_matrix": matrix}
    return {"coverage": cov, "broken": None if ok > 0 and len(items) > 100 else "nothing agreed",
            "assumptions": ["negative indices on strings may wrap or be errors (book silent)",
                            "split/rsplit with a count: 'n' may be the number of splits or of strings (book vs code)",
                            "empty needle in find/rfind may be an error", "whitespace set restricted to the generator's alphabet",
                            "is_lower/is_upper only on strings whose characters have agreeing Python/Unicode classification"]}


def replay(ctx, rec):
    case = rec["case"]
    obs = ctx.run([case], name="C18_replay")[0]
    fail = batch.program_failure(obs)
    out = fail if fail is not None else batch.binding_outcome(obs.get("bindings", {}).get("r0"))
    print("expected:", rec["detail"]["expected"])
    print("observed:", {k: out.get(k) for k in ("kind", "raw", "panic", "err", "violation")})
    from ..batch import Gen as G, Opt as O, NONE as N, Approx
    exp = eval(rec["detail"]["expected"].replace("Opt.none", "NONE"), {"Err": Err, "AnyOf": AnyOf, "Skip": Skip, "Opt": O, "NONE": N, "Gen": G})
    if batch.matches(exp, out):
        print("replay: no violation reproduced")
        return 0
    print(f"VIOLATION property={ctx.prop} replay=<replayed>")
    return 1
