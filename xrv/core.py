"""Shared machinery: build, sharded execution with crash attribution, verdicts, known findings,
evidence.  Python stdlib only."""
import fcntl
import sys as _sys
_sys.set_int_max_str_digits(0)
import hashlib
import json
import os
import random
import re
import resource
import shutil
import signal
import subprocess
import sys
import threading
import time
from concurrent.futures import ThreadPoolExecutor

ROOT = os.path.dirname(os.path.dirname(os.path.abspath(__file__)))
WORKER_DIR = os.path.join(ROOT, "worker")
TARGET = os.path.join(ROOT, "target")
WORK = os.path.join(ROOT, "work")
EVIDENCE = os.path.join(ROOT, "evidence")
REPLAYS = os.path.join(ROOT, "replays")
KNOWN = os.path.join(ROOT, "known_findings.jsonl")
NPROC = int(os.environ.get("XRV_NPROC", "16"))
ENV = dict(os.environ, CARGO_NET_OFFLINE="true")


class Broken(Exception):
    """the run itself is broken (build failure, no observations): exit 2, never a VIOLATION"""


def seed_for(prop, seed):
    h = int(hashlib.sha256(prop.encode()).hexdigest()[:12], 16)
    return (seed * 1000003) ^ h


# ------------------------------------------------------------------------------------------------
# build

def build(profile="dev"):
    """(re)build the worker from /repo's current working tree; serialised by a file lock"""
    os.makedirs(TARGET, exist_ok=True)
    os.makedirs(WORK, exist_ok=True)
    lock = open(os.path.join(TARGET, ".xrv-build.lock"), "w")
    fcntl.flock(lock, fcntl.LOCK_EX)
    try:
        cmd = ["cargo", "build", "--offline", "--quiet"]
        if profile == "release":
            cmd.append("--release")
        t0 = time.time()
        p = subprocess.run(cmd, cwd=WORKER_DIR, env=ENV, stdout=subprocess.PIPE,
                           stderr=subprocess.STDOUT, text=True)
        if p.returncode != 0:
            tail = "\n".join(l for l in p.stdout.splitlines() if "error" in l or l.startswith(" "))[-4000:]
            raise Broken("cargo build failed:\n" + (tail or p.stdout[-4000:]))
        return os.path.join(TARGET, "release" if profile == "release" else "debug", "xrv-worker"), time.time() - t0
    finally:
        fcntl.flock(lock, fcntl.LOCK_UN)
        lock.close()


# ------------------------------------------------------------------------------------------------
# execution

def _limit_as(gib):
    def f():
        lim = int(gib * (1 << 30))
        resource.setrlimit(resource.RLIMIT_AS, (lim, lim))
        resource.setrlimit(resource.RLIMIT_CORE, (0, 0))
    return f


def _run_chunk(binary, cases, rundir, tag, case_timeout_ms, as_gib, wrapper=None):
    """run one chunk; returns list of observations aligned with cases.  A case during which the
    process died / hung gets {'died':..} / {'timeout':True} and the rest is resumed."""
    cpath = os.path.join(rundir, f"cases_{tag}.jsonl")
    opath = os.path.join(rundir, f"obs_{tag}.jsonl")
    with open(cpath, "w") as f:
        for c in cases:
            f.write(json.dumps(c) + "\n")
    if os.path.exists(opath):
        os.remove(opath)
    results = [None] * len(cases)
    start = 0
    env = dict(ENV, XRV_CASE_TIMEOUT_MS=str(case_timeout_ms))
    while start < len(cases):
        cmd = (wrapper or []) + [binary, cpath, opath, str(start)]
        budget = 30 + (len(cases) - start) * (case_timeout_ms / 1000.0 + 0.5)
        try:
            p = subprocess.run(cmd, env=env, stdout=subprocess.PIPE, stderr=subprocess.PIPE,
                               preexec_fn=_limit_as(as_gib) if as_gib else None, timeout=budget)
            rc = p.returncode
            err = p.stderr.decode("utf8", "replace")[-2000:]
        except subprocess.TimeoutExpired:
            rc, err = -999, "outer watchdog"
        begun = None
        done = set()
        timed_out = False
        if os.path.exists(opath):
            with open(opath) as f:
                for line in f:
                    if line.startswith("BEGIN "):
                        begun = int(line.split()[1])
                    elif line.startswith("TIMEOUT"):
                        timed_out = True
                    elif line.startswith("{"):
                        try:
                            o = json.loads(line)
                        except ValueError:
                            continue
                        idx = o.get("idx")
                        if idx is not None and idx >= start:
                            results[idx] = o
                            done.add(idx)
            os.remove(opath)
        if rc == 0:
            break
        # the process ended early: attribute to the case that had begun and not finished
        if begun is None or begun in done:
            # died outside a case: give up on this chunk's rest (harness problem)
            for i in range(start, len(cases)):
                if results[i] is None:
                    results[i] = {"harness_error": f"worker rc={rc} {err}"}
            break
        if timed_out or rc == 97 or rc == -999:
            results[begun] = {"timeout": True, "rc": rc}
        else:
            results[begun] = {"died": True, "rc": rc, "stderr": err}
        start = begun + 1
    for i in range(len(cases)):
        if results[i] is None:
            results[i] = {"harness_error": "no observation"}
    try:
        os.remove(cpath)
    except OSError:
        pass
    return results


def run_cases(binary, cases, name, case_timeout_ms=20000, as_gib=6, nproc=None, chunk=None,
              confirm=True, wrapper=None):
    """execute cases on up to NPROC worker processes.  Timeouts / deaths are re-run alone with a
    3x budget; only a confirmed one keeps its flag, an unconfirmed one is 'inconclusive'."""
    nproc = nproc or NPROC
    rundir = os.path.join(WORK, f"{name}_{os.getpid()}")
    os.makedirs(rundir, exist_ok=True)
    n = len(cases)
    if n == 0:
        return []
    if chunk is None:
        chunk = max(1, min(200, n // (nproc * 3) + 1))
    chunks = [(i, cases[i:i + chunk]) for i in range(0, n, chunk)]
    results = [None] * n

    def work(arg):
        k, (off, cs) = arg
        return off, _run_chunk(binary, cs, rundir, f"{k}", case_timeout_ms, as_gib, wrapper)

    with ThreadPoolExecutor(max_workers=nproc) as ex:
        for off, res in ex.map(work, enumerate(chunks)):
            results[off:off + len(res)] = res
    if confirm:
        suspects = [i for i, r in enumerate(results) if r.get("timeout") or r.get("died")]
        # solo re-run, 3x budget, at most 4 at a time so that load does not cause a second timeout

        def solo(i):
            r = _run_chunk(binary, [cases[i]], rundir, f"solo{i}", case_timeout_ms * 3, as_gib, wrapper)[0]
            return i, r

        with ThreadPoolExecutor(max_workers=4) as ex:
            for i, r in ex.map(solo, suspects):
                first = results[i]
                if r.get("timeout") or r.get("died"):
                    r["confirmed"] = True
                    r["first"] = {k: first.get(k) for k in ("timeout", "died", "rc")}
                    results[i] = r
                else:
                    r["inconclusive_first_run"] = {k: first.get(k) for k in ("timeout", "died", "rc")}
                    results[i] = r
    shutil.rmtree(rundir, ignore_errors=True)
    return results


# ------------------------------------------------------------------------------------------------
# dumps

def strip_dump(d):
    """normalise a worker dump to a comparable python value:
    int -> ('i', n); float -> ('f', bits); str -> ('s', text); bool -> ('b', v); tuple/struct -> ('t', [..]);
    union -> ('u', idx, v); seq -> ('q', [...], truncated); generator -> ('g', [...], truncated);
    optional -> ('o', None|v); stack -> ('k', [...]); set -> ('e', sorted); mapping -> ('m', sorted)"""
    if d is None:
        return None
    k = d[0]
    if k == "i":
        return ("i", int(d[1]))
    if k == "f":
        return ("f", d[1])
    if k == "s":
        return ("s", d[1])
    if k == "b":
        return ("b", d[1])
    if k == "fn":
        return ("fn",)
    if k == "t":
        return ("t", tuple(strip_dump(x) for x in d[1]))
    if k == "u":
        return ("u", d[1], strip_dump(d[2]))
    if k in ("q", "g", "k"):
        return (k, tuple(strip_dump(x) for x in d[1]), bool(d[2]))
    if k == "o":
        return ("o", None if d[1] is None else strip_dump(d[1]))
    if k == "e":
        return ("e", tuple(sorted((strip_dump(x) for x in d[1]), key=repr)), bool(d[2]))
    if k == "m":
        return ("m", tuple(sorted(((strip_dump(a), strip_dump(b)) for a, b in d[1]), key=repr)), bool(d[2]))
    if k == "err":
        return ("err", d[1])
    if k == "viol":
        return ("viol", d[1])
    if k == "n":
        return ("n", d[1])
    return (k,)


def walk_dump(d, f):
    """call f(node) on every node of a raw worker dump"""
    if not isinstance(d, list) or not d:
        return
    f(d)
    k = d[0]
    if k == "t":
        for x in d[1]:
            walk_dump(x, f)
    elif k == "u":
        walk_dump(d[2], f)
    elif k in ("q", "g", "k", "e"):
        for x in d[1]:
            walk_dump(x, f)
    elif k == "o" and d[1] is not None:
        walk_dump(d[1], f)
    elif k == "m":
        for a, b in d[1]:
            walk_dump(a, f)
            walk_dump(b, f)


import struct


def fbits(x):
    return "%016x" % struct.unpack("<Q", struct.pack("<d", x))[0]


def bits_to_float(h):
    return struct.unpack("<d", struct.pack("<Q", int(h, 16)))[0]


# ------------------------------------------------------------------------------------------------
# known findings

def load_known():
    out = []
    if os.path.exists(KNOWN):
        for line in open(KNOWN):
            line = line.strip()
            if line and not line.startswith("#"):
                out.append(json.loads(line))
    return out


class Verdicts:
    """collects violations of one property, triages against known findings, prints the lines the
    interface asks for"""

    def __init__(self, prop, tier, seed):
        self.prop, self.tier, self.seed = prop, tier, seed
        self.known = [k for k in load_known() if k.get("property") == prop and k.get("status") == "open"]
        self.known_hits = {}
        self.new = {}
        self.inconclusive = []
        self.count_violating_cases = 0
        self.keep_old = False

    def violation(self, sig, case, detail):
        """sig: narrow textual signature of the departure; detail: dict (expected/observed)"""
        for k in self.known:
            if re.search(k["sig"], sig):
                self.known_hits.setdefault(k["id"], [k, 0, sig])[1] += 1
                return "known"
        self.count_violating_cases += 1
        if sig not in self.new:
            self.new[sig] = (case, detail, 1)
        else:
            c, d, n = self.new[sig]
            self.new[sig] = (c, d, n + 1)
        return "new"

    def inconclusive_case(self, why, case):
        self.inconclusive.append({"why": why, "id": case.get("id")})

    def finish(self, max_print=25):
        for kid, (k, n, sig) in sorted(self.known_hits.items()):
            print(f"KNOWN-FINDING: property={self.prop} {k['what']} [{kid}; {n} observation(s)]")
        d = os.path.join(REPLAYS, self.prop)
        if not self.keep_old:
            shutil.rmtree(d, ignore_errors=True)
        if not self.new:
            return 0
        os.makedirs(d, exist_ok=True)
        for i, (sig, (case, detail, n)) in enumerate(sorted(self.new.items(), key=lambda kv: -kv[1][2])):
            h = hashlib.sha256(sig.encode()).hexdigest()[:12]
            path = os.path.join(d, f"{h}.json")
            with open(path, "w") as f:
                json.dump({"property": self.prop, "signature": sig, "occurrences": n, "tier": self.tier,
                           "seed": self.seed, "case": case, "detail": detail}, f, indent=1, default=repr)
            if i < max_print:
                print(f"VIOLATION property={self.prop} replay={path}")
                print(f"  signature: {sig}  ({n} occurrence(s))")
        if len(self.new) > max_print:
            print(f"  ... and {len(self.new) - max_print} more distinct signatures (replay files written)")
        return 1


# ------------------------------------------------------------------------------------------------
# evidence

def write_evidence(prop, tier, seed, level, coverage, wall_s, violations, assumptions):
    os.makedirs(EVIDENCE, exist_ok=True)
    ev = {"property_id": prop, "tier": tier, "seed": seed, "level": level, "coverage": coverage,
          "assumptions": assumptions, "wall_s": round(wall_s, 2), "violations": violations}
    tmp = os.path.join(EVIDENCE, f".{prop}.json.tmp")
    with open(tmp, "w") as f:
        json.dump(ev, f, indent=1, default=repr)
    os.replace(tmp, os.path.join(EVIDENCE, f"{prop}.json"))


def case_hash(case):
    c = {k: v for k, v in case.items() if k not in ("id", "check", "meta")}
    return hashlib.sha256(json.dumps(c, sort_keys=True).encode()).hexdigest()[:16]


# ------------------------------------------------------------------------------------------------
# common observation helpers

def panic_sig(p):
    """signature of a panic: file + message with numbers / quoted values abstracted"""
    if not p:
        return "panic:?"
    msg = p.get("msg", "")
    msg = re.sub(r"0x[0-9a-fA-F_]+|\d+", "N", msg)
    msg = re.sub(r"\(.*", "(..)", msg)
    msg = msg[:80]
    f = p.get("file", "?")
    m = re.search(r"/registry/src/[^/]+/([^/]+)/", f)
    crate = (re.sub(r"-\d[\d.]*$", "", m.group(1)) + "/") if m else ""      # a panic inside a dependency names the crate
    return f"{crate}{os.path.basename(f)}:{msg}"


def outcomes(obs):
    """iterate (where, record) over every step of an observation that has an outcome"""
    if "compile" in obs:
        yield "compile", obs["compile"]
    if "instantiate" in obs:
        yield "instantiate", obs["instantiate"]
    for c in obs.get("calls", []) or []:
        yield "call:" + c.get("fn", "?"), c


def find_panics(obs):
    """every panic recorded anywhere in an observation: (where, panic)"""
    out = []
    for where, rec in outcomes(obs):
        if rec.get("panic"):
            out.append((where, rec["panic"]))
        if rec.get("force_panic"):
            out.append((where + ":force", rec["force_panic"]))
    for name, b in (obs.get("bindings") or {}).items():
        if b.get("force_panic"):
            out.append(("binding:" + name + ":force", b["force_panic"]))
    if obs.get("drop_panic"):
        out.append(("drop", obs["drop_panic"]))
    return out
