"""Core-language reference: typed random program generator, surface-form printer and an independent
big-step evaluator with lexical environments, written from the book (not from the Rust source).

Instrumentation returned with every run: output lines, number of user-function calls, maximal
nesting depth of user calls, longest run of consecutive tail self-calls."""
import itertools

# ---------------------------------------------------------------------------------------------
# types:  'int' 'bool' 'str' | ('tup', (t,..)) | ('seq', t) | ('opt', t) | ('struct', name) | ('union', name) | ('fn', (t,..), ret)

INT, BOOL, STR = "int", "bool", "str"


def ty_src(t):
    if isinstance(t, str):
        return t
    k = t[0]
    if k == "tup":
        return "(" + ", ".join(ty_src(x) for x in t[1]) + ")"
    if k == "seq":
        return f"Sequence<{ty_src(t[1])}>"
    if k == "opt":
        return f"Optional<{ty_src(t[1])}>"
    if k in ("struct", "union"):
        return t[1]
    if k == "fn":
        return "(" + ", ".join(ty_src(x) for x in t[1]) + ")->(" + ty_src(t[2]) + ")"
    raise ValueError(t)


STRUCTS = {"P": [("a", INT), ("b", STR)], "Q": [("p", ("struct", "P")), ("n", INT)]}
UNIONS = {"U": [("i", INT), ("s", STR)]}
DECLS = "struct P(a: int, b: str)\nstruct Q(p: P, n: int)\nunion U(i: int, s: str)\n"


# ---------------------------------------------------------------------------------------------
# values

class ErrV:
    def __init__(self, msg):
        self.msg = msg

    def __repr__(self):
        return f"ErrV({self.msg!r})"


class Closure:
    def __init__(self, fn, env):
        self.fn, self.env = fn, env


class StructV:
    def __init__(self, name, fields):
        self.name, self.fields = name, fields


class UnionV:
    def __init__(self, name, idx, v):
        self.name, self.idx, self.v = name, idx, v


class OptV:
    def __init__(self, v=None, has=False):
        self.v, self.has = v, has


class Violation(Exception):
    def __init__(self, kind):
        self.kind = kind


class Limits:
    def __init__(self, depth=None, calls=None, recursion=None):
        self.depth, self.calls, self.recursion = depth, calls, recursion


class Machine:
    def __init__(self, limits=None):
        self.out = []
        self.calls = 0          # user-function calls begun (a trampolined tail self-call is not a new call)
        self.depth = 0
        self.max_depth = 0
        self.max_tail_run = 0
        self.tail_iters = 0
        self.limits = limits or Limits()
        self.steps = 0
        self.stop_at_error = False


class TailCall(Exception):
    def __init__(self, args):
        self.args_ = args


def to_str(v):
    if isinstance(v, bool):
        return "true" if v else "false"
    if isinstance(v, int):
        return str(v)
    if isinstance(v, str):
        return v
    raise ValueError("to_str of %r" % (v,))


def is_err(v):
    return isinstance(v, ErrV)


# ---------------------------------------------------------------------------------------------
# environments: linked frames  {name: value}

class Env:
    def __init__(self, parent=None):
        self.vars, self.parent = {}, parent

    def get(self, n):
        e = self
        while e is not None:
            if n in e.vars:
                return e.vars[n]
            e = e.parent
        raise KeyError(n)


# ---------------------------------------------------------------------------------------------
# AST

PREC = {"**": 6, "*": 5, "/": 5, "%": 5, "+": 4, "-": 4, "|": 3, "&": 3, "^": 3, "<": 2, ">": 2, "<=": 2, ">=": 2, "==": 2, "!=": 2, "&&": 1, "||": 1}
OPNAME = {"+": "add", "-": "sub", "*": "mul", "%": "mod", "|": "bit_or", "&": "bit_and", "^": "bit_xor", "<": "lt", ">": "gt",
          "<=": "le", ">=": "ge", "==": "eq", "!=": "ne", "&&": "and", "||": "or", "**": "pow"}


class Node:
    ty = None

    def src(self, pr):
        raise NotImplementedError

    def ev(self, env, m):
        raise NotImplementedError

    def atom(self, pr):
        """source usable as the receiver of an accessor / method"""
        s = self.src(pr)
        return s if self.is_atom() else f"({s})"

    def is_atom(self):
        return False


class Lit(Node):
    def __init__(self, v):
        self.v = v
        self.ty = BOOL if isinstance(v, bool) else INT if isinstance(v, int) else STR

    def is_atom(self):
        return not (isinstance(self.v, int) and not isinstance(self.v, bool) and self.v < 0)

    def src(self, pr):
        if isinstance(self.v, bool):
            return "true" if self.v else "false"
        if isinstance(self.v, int):
            return str(self.v) if self.v >= 0 else f"({self.v})"
        return pr.string(self.v)

    def ev(self, env, m):
        return self.v


class Var(Node):
    def __init__(self, name, ty):
        self.name, self.ty = name, ty

    def is_atom(self):
        return True

    def src(self, pr):
        return pr.nm(self.name)

    def ev(self, env, m):
        return env.get(self.name)


def ev_args(nodes, env, m):
    """arguments of a builtin / constructor: left to right; under the `stop_at_error` policy evaluation
    stops at the first error (both policies are accepted by the checks: the book says every argument is
    evaluated, the builtins stop at the first error)"""
    vals = []
    for n in nodes:
        v = n.ev(env, m)
        if is_err(v) and m.stop_at_error:
            return v, None
        vals.append(v)
    for v in vals:
        if is_err(v):
            return v, None
    return None, vals


def int_op(op, a, b):
    if op == "+":
        return a + b
    if op == "-":
        return a - b
    if op == "*":
        return a * b
    if op == "%":
        return ErrV("mod") if b == 0 else a % b
    if op == "|":
        return a | b
    if op == "&":
        return a & b
    if op == "^":
        return a ^ b
    if op == "<":
        return a < b
    if op == ">":
        return a > b
    if op == "<=":
        return a <= b
    if op == ">=":
        return a >= b
    if op == "==":
        return a == b
    if op == "!=":
        return a != b
    raise ValueError(op)


class Bin(Node):
    """binary operator: a named function applied to two strictly evaluated arguments, except the
    documented short-circuit `and` / `or`"""

    def __init__(self, op, a, b, ty):
        self.op, self.a, self.b, self.ty = op, a, b, ty

    def src(self, pr):
        form = pr.form(["op", "op", "op", "named", "method"])
        if form == "named":
            return f"{OPNAME[self.op]}({self.a.src(pr)}, {self.b.src(pr)})"
        if form == "method":
            return f"{self.a.atom(pr)}.{OPNAME[self.op]}({self.b.src(pr)})"
        p = PREC[self.op]

        def side(x, right):
            s = x.src(pr)
            if isinstance(x, Bin) and x._printed_as_op:
                q = PREC[x.op]
                need = q < p or (q == p and right)
                return f"({s})" if need or pr.extra_parens() else s
            if isinstance(x, Un) and x._printed_as_op:
                return f"({s})"
            return s
        la = side(self.a, False)
        lb = side(self.b, True)
        self._printed_as_op = True
        if self.op == "<" and la.replace("_", "a").isalnum():
            # `name < x, y > z` inside an argument list is read as a generic specialisation `name<x, y>` by the
            # grammar (recorded as a finding by a dedicated probe); the generator keeps clear of it
            self._printed_as_op = False
            return f"({la} {self.op} {lb})"
        return f"{la} {self.op} {lb}"

    _printed_as_op = False

    def ev(self, env, m):
        a = self.a.ev(env, m)
        if self.op in ("&&", "||"):
            if is_err(a):
                return a
            if self.op == "&&" and a is False:
                return False
            if self.op == "||" and a is True:
                return True
            return self.b.ev(env, m)
        if is_err(a) and m.stop_at_error:
            return a
        b = self.b.ev(env, m)
        if is_err(a):
            return a
        if is_err(b):
            return b
        if self.a.ty == STR:
            if self.op == "+":
                return a + b
            if self.op == "==":
                return a == b
            if self.op == "!=":
                return a != b
        if self.a.ty == BOOL:
            if self.op == "==":
                return a == b
            if self.op == "!=":
                return a != b
            if self.op == "^":
                return a != b
        return int_op(self.op, a, b)


class Un(Node):
    def __init__(self, op, a, ty):
        self.op, self.a, self.ty = op, a, ty

    _printed_as_op = False

    def src(self, pr):
        form = pr.form(["op", "op", "named", "method"])
        name = {"-": "neg", "!": "not", "+": "pos"}[self.op]
        if form == "named":
            return f"{name}({self.a.src(pr)})"
        if form == "method":
            return f"{self.a.atom(pr)}.{name}()"
        self._printed_as_op = True
        return f"{self.op}{self.a.atom(pr)}"

    def ev(self, env, m):
        a = self.a.ev(env, m)
        if is_err(a):
            return a
        return (not a) if self.op == "!" else (-a if self.op == "-" else a)


class If(Node):
    def __init__(self, c, a, b):
        self.c, self.a, self.b, self.ty = c, a, b, a.ty

    def is_atom(self):
        return self._atom

    _atom = True

    def src(self, pr):
        if pr.form(["fn", "fn", "method"]) == "method":
            return f"{self.c.atom(pr)}.if({self.a.src(pr)}, {self.b.src(pr)})"
        return f"if({self.c.src(pr)}, {self.a.src(pr)}, {self.b.src(pr)})"

    def ev(self, env, m, tail=None):
        c = self.c.ev(env, m)
        if is_err(c):
            return c
        br = self.a if c else self.b
        if tail is not None:
            return ev_tail(br, env, m, tail)
        return br.ev(env, m)


class Display(Node):
    def __init__(self, a):
        self.a, self.ty = a, a.ty

    def is_atom(self):
        return True

    def src(self, pr):
        return f"display({self.a.src(pr)})"

    def ev(self, env, m):
        a = self.a.ev(env, m)
        if is_err(a):
            return a
        m.out.append(to_str(a))
        return a


class Error(Node):
    def __init__(self, msg, ty):
        self.msg, self.ty = msg, ty

    def is_atom(self):
        return True

    def src(self, pr):
        return f"error({pr.string(self.msg)})"

    def ev(self, env, m):
        return ErrV(self.msg)


class IfError(Node):
    def __init__(self, a, b):
        self.a, self.b, self.ty = a, b, a.ty

    def is_atom(self):
        return True

    def src(self, pr):
        return f"if_error({self.a.src(pr)}, {self.b.src(pr)})"

    def ev(self, env, m):
        a = self.a.ev(env, m)
        if is_err(a):
            return self.b.ev(env, m)
        return a


class IsError(Node):
    def __init__(self, a):
        self.a, self.ty = a, BOOL

    def is_atom(self):
        return True

    def src(self, pr):
        return f"is_error({self.a.src(pr)})"

    def ev(self, env, m):
        return is_err(self.a.ev(env, m))


class Tup(Node):
    def __init__(self, items):
        self.items, self.ty = items, ("tup", tuple(i.ty for i in items))

    def is_atom(self):
        return True

    def src(self, pr):
        return "(" + ", ".join(i.src(pr) for i in self.items) + ("," if len(self.items) == 1 else "") + ")"

    def ev(self, env, m):
        e, vs = ev_args(self.items, env, m)
        return e if e is not None else tuple(vs)


class Item(Node):
    def __init__(self, a, idx):
        self.a, self.idx, self.ty = a, idx, a.ty[1][idx]

    def is_atom(self):
        return True

    def src(self, pr):
        return f"{self.a.atom(pr)}::item{self.idx}"

    def ev(self, env, m):
        a = self.a.ev(env, m)
        return a if is_err(a) else a[self.idx]


class Construct(Node):
    def __init__(self, name, args):
        self.name, self.args, self.ty = name, args, ("struct", name)

    def is_atom(self):
        return True

    def src(self, pr):
        return f"{self.name}(" + ", ".join(a.src(pr) for a in self.args) + ")"

    def ev(self, env, m):
        e, vs = ev_args(self.args, env, m)
        return e if e is not None else StructV(self.name, vs)


class Member(Node):
    def __init__(self, a, field):
        self.a, self.field = a, field
        fields = STRUCTS[a.ty[1]]
        self.idx = [n for n, _ in fields].index(field)
        self.ty = fields[self.idx][1]

    def is_atom(self):
        return True

    def src(self, pr):
        return f"{self.a.atom(pr)}::{self.field}"

    def ev(self, env, m):
        a = self.a.ev(env, m)
        return a if is_err(a) else a.fields[self.idx]


class Variant(Node):
    def __init__(self, uname, field, a):
        self.uname, self.field, self.a, self.ty = uname, field, a, ("union", uname)
        self.idx = [n for n, _ in UNIONS[uname]].index(field)

    def is_atom(self):
        return True

    def src(self, pr):
        return f"{self.uname}::{self.field}({self.a.src(pr)})"

    def ev(self, env, m):
        a = self.a.ev(env, m)
        return a if is_err(a) else UnionV(self.uname, self.idx, a)


class VariantGet(Node):
    """u!:f  (value or error)   /   u?:f  (Optional)"""

    def __init__(self, a, field, opt):
        self.a, self.field, self.opt = a, field, opt
        fields = UNIONS[a.ty[1]]
        self.idx = [n for n, _ in fields].index(field)
        t = fields[self.idx][1]
        self.ty = ("opt", t) if opt else t

    def is_atom(self):
        return True

    def src(self, pr):
        return f"{self.a.atom(pr)}{'?:' if self.opt else '!:'}{self.field}"

    def ev(self, env, m):
        a = self.a.ev(env, m)
        if is_err(a):
            return a
        if self.opt:
            return OptV(a.v, True) if a.idx == self.idx else OptV()
        return a.v if a.idx == self.idx else ErrV("variant")


class SeqLit(Node):
    def __init__(self, items, elem_ty):
        self.items, self.ty = items, ("seq", elem_ty)

    def is_atom(self):
        return True

    def src(self, pr):
        if not self.items:
            return "[]"
        return "[" + ", ".join(i.src(pr) for i in self.items) + "]"

    def ev(self, env, m):
        e, vs = ev_args(self.items, env, m)
        return e if e is not None else list(vs)


class Index(Node):
    def __init__(self, a, i):
        self.a, self.i, self.ty = a, i, a.ty[1]

    def is_atom(self):
        return True

    def src(self, pr):
        f = pr.form(["idx", "idx", "get", "method"])
        if f == "get":
            return f"get({self.a.src(pr)}, {self.i.src(pr)})"
        if f == "method":
            return f"{self.a.atom(pr)}.get({self.i.src(pr)})"
        return f"{self.a.atom(pr)}[{self.i.src(pr)}]"

    def ev(self, env, m):
        e, vs = ev_args([self.a, self.i], env, m)
        if e is not None:
            return e
        a, i = vs
        n = len(a)
        if -n <= i < n:
            return a[i]
        return ErrV("index")


class Len(Node):
    def __init__(self, a):
        self.a, self.ty = a, INT

    def is_atom(self):
        return True

    def src(self, pr):
        return f"{self.a.atom(pr)}.len()" if pr.form(["m", "f"]) == "m" else f"len({self.a.src(pr)})"

    def ev(self, env, m):
        a = self.a.ev(env, m)
        return a if is_err(a) else len(a)


class Concat(Node):
    def __init__(self, a, b):
        self.a, self.b, self.ty = a, b, a.ty

    def is_atom(self):
        return True

    def src(self, pr):
        return f"add({self.a.src(pr)}, {self.b.src(pr)})"

    def ev(self, env, m):
        e, vs = ev_args([self.a, self.b], env, m)
        return e if e is not None else vs[0] + vs[1]


class MapArr(Node):
    """seq.map(f).to_array(): the callee runs once per element, in order, when the array is built"""

    def __init__(self, a, f, ret_ty):
        self.a, self.f, self.ty = a, f, ("seq", ret_ty)

    def is_atom(self):
        return True

    def src(self, pr):
        return f"{self.a.atom(pr)}.map({self.f.src(pr)}).to_array()"

    def ev(self, env, m):
        e, vs = ev_args([self.a, self.f], env, m)
        if e is not None:
            return e
        a, f = vs
        out = []
        for x in a:
            r = call_closure(f, [x], m)
            if is_err(r):
                return r
            out.append(r)
        return out


class Some(Node):
    def __init__(self, a):
        self.a, self.ty = a, ("opt", a.ty)

    def is_atom(self):
        return True

    def src(self, pr):
        return f"some({self.a.src(pr)})"

    def ev(self, env, m):
        a = self.a.ev(env, m)
        return a if is_err(a) else OptV(a, True)


class NoneOf(Node):
    def __init__(self, t):
        self.ty = ("opt", t)

    def is_atom(self):
        return True

    def src(self, pr):
        return "none()"

    def ev(self, env, m):
        return OptV()


class OptOp(Node):
    """has_value / value / or (default value, short-circuit) / map_or"""

    def __init__(self, op, a, b=None, c=None):
        self.op, self.a, self.b, self.c = op, a, b, c
        self.ty = BOOL if op == "has_value" else a.ty[1] if op in ("value", "or") else c.ty

    def is_atom(self):
        return True

    def src(self, pr):
        if self.op == "has_value":
            return f"{self.a.atom(pr)}.has_value()"
        if self.op == "value":
            return f"{self.a.atom(pr)}.value()"
        if self.op == "or":
            return f"or({self.a.src(pr)}, {self.b.src(pr)})"
        return f"{self.a.atom(pr)}.map_or({self.b.src(pr)}, {self.c.src(pr)})"

    def ev(self, env, m):
        a = self.a.ev(env, m)
        if is_err(a):
            return a
        if self.op == "has_value":
            return a.has
        if self.op == "value":
            return a.v if a.has else ErrV("value")
        if self.op == "or":
            return a.v if a.has else self.b.ev(env, m)
        # map_or(opt, f, default): default is only evaluated when there is no value
        if a.has:
            f = self.b.ev(env, m)
            if is_err(f):
                return f
            return call_closure(f, [a.v], m)
        return self.c.ev(env, m)


class FnDef:
    """fn name(params)->ret { decls; body }  or a lambda (name None)"""
    _ids = itertools.count()

    def __init__(self, name, params, ret, decls, body, defaults=None):
        self.name, self.params, self.ret, self.decls, self.body = name, params, ret, decls, body
        self.defaults = defaults or []          # list of Node for the trailing parameters
        self.id = next(FnDef._ids)
        self.ty = ("fn", tuple(t for _, t in params), ret)

    def header(self, pr):
        req = len(self.params) - len(self.defaults)
        ps = []
        for i, (n, t) in enumerate(self.params):
            s = f"{pr.nm(n)}: {ty_src(t)}"
            if i >= req:
                s += f" ?= {self.defaults[i - req].src(pr)}"
            ps.append(s)
        return ", ".join(ps)

    def body_src(self, pr, indent):
        pad = "    " * indent
        lines = [d.src(pr, indent) for d in self.decls]
        lines.append(pad + self.body.src(pr))
        return "\n".join(lines)

    def src(self, pr, indent=0):
        pad = "    " * indent
        return f"{pad}fn {pr.nm(self.name)}({self.header(pr)})->{ty_src(self.ret)}{{\n{self.body_src(pr, indent + 1)}\n{pad}}}"


class LetDecl:
    def __init__(self, name, expr, annotate=False):
        self.name, self.expr, self.annotate = name, expr, annotate

    def src(self, pr, indent=0):
        ann = f": {ty_src(self.expr.ty)}" if self.annotate else ""
        return "    " * indent + f"let {pr.nm(self.name)}{ann} = {self.expr.src(pr)};"

    def run(self, env, m):
        env.vars[self.name] = self.expr.ev(env, m)


class FnDecl:
    def __init__(self, fn):
        self.fn = fn

    def src(self, pr, indent=0):
        return self.fn.src(pr, indent)

    def run(self, env, m):
        c = Closure(self.fn, env)
        # defaults are evaluated once, when the function is created, in the creating scope
        c.defaults = [d.ev(env, m) for d in self.fn.defaults]
        env.vars[self.fn.name] = c


class Lambda(Node):
    def __init__(self, fn):
        self.fn, self.ty = fn, fn.ty

    def is_atom(self):
        return False

    def src(self, pr):
        body = self.fn.body.src(pr)
        decls = " ".join(d.src(pr, 0) for d in self.fn.decls)
        return f"({self.fn.header(pr)})->{{{decls + ' ' if decls else ''}{body}}}"

    def ev(self, env, m):
        c = Closure(self.fn, env)
        c.defaults = [d.ev(env, m) for d in self.fn.defaults]
        return c


class Call(Node):
    def __init__(self, callee, args, ret, method=False):
        self.callee, self.args, self.ty = callee, args, ret

    def is_atom(self):
        return True

    def src(self, pr):
        args = [a.src(pr) for a in self.args]
        if isinstance(self.callee, Var) and args and pr.form(["call", "call", "method"]) == "method":
            recv = self.args[0].atom(pr)
            if not (pr.nm(self.callee.name).startswith("_") and recv[-1:].isdigit()):     # `1._a(2)` lexes as the number `1._` followed by `a`
                return f"{recv}.{pr.nm(self.callee.name)}(" + ", ".join(args[1:]) + ")"
        return f"{self.callee.atom(pr)}(" + ", ".join(args) + ")"

    def ev(self, env, m, tail=None):
        f = self.callee.ev(env, m)
        vs = [a.ev(env, m) for a in self.args]
        if is_err(f):
            return f
        if tail is not None and f.fn is tail and isinstance(self.callee, Var) and self.callee.name == tail.name:
            # a self-call in tail position re-uses the frame (the arguments were evaluated, errors included)
            raise TailCall(vs)
        return call_closure(f, vs, m)


def ev_tail(node, env, m, fn):
    """evaluate node in tail position of fn"""
    if isinstance(node, (If, Call)):
        return node.ev(env, m, tail=fn)
    return node.ev(env, m)


def call_closure(c, args, m):
    fn = c.fn
    m.calls += 1
    if m.limits.calls is not None and m.calls >= m.limits.calls:
        raise Violation("MaximumUDCall")
    run = 0
    while True:
        # an error argument is the result (leftmost), the body does not run
        for a in args:
            if is_err(a):
                return a
        req = len(fn.params) - len(fn.defaults)
        full = list(args) + c.defaults[len(args) - req:] if len(args) < len(fn.params) else list(args)
        for a in full:
            if is_err(a):
                return a
        m.depth += 1
        if m.limits.depth is not None and m.depth >= m.limits.depth:
            m.depth -= 1
            raise Violation("MaximumStackDepth")
        m.max_depth = max(m.max_depth, m.depth)
        env = Env(c.env)
        for (n, _), v in zip(fn.params, full):
            env.vars[n] = v
        try:
            for d in fn.decls:
                d.run(env, m)
            r = ev_tail(fn.body, env, m, fn if fn.name else None)
            m.depth -= 1
            return r
        except TailCall as t:
            m.depth -= 1
            run += 1
            m.tail_iters += 1
            m.max_tail_run = max(m.max_tail_run, run)
            if m.limits.recursion is not None and run > m.limits.recursion:
                raise Violation("MaximumRecursion")
            args = t.args_
        except Violation:
            m.depth -= 1
            raise


# ---------------------------------------------------------------------------------------------
# printer options

class Printer:
    def __init__(self, rng, plain=False, names=None):
        self.rng, self.plain = rng, plain
        self.names = names or {}        # model name (unique) -> spelling in the source (C03: shadowing)

    def nm(self, name):
        return self.names.get(name, name)

    def form(self, choices):
        return choices[0] if self.plain else self.rng.choice(choices)

    def extra_parens(self):
        return (not self.plain) and self.rng.random() < 0.15

    def string(self, s):
        esc = s.replace("\\", "\\\\").replace('"', '\\"').replace("\n", "\\n")
        if self.plain or self.rng.random() < 0.7:
            return f'"{esc}"'
        if "'" not in s and "\\" not in s and "\n" not in s:
            return f"'{s}'"
        return f'#"{esc}"#'


class Program:
    def __init__(self, decls):
        self.decls = decls

    def src(self, rng=None, plain=False, names=None):
        pr = Printer(rng, plain or rng is None, names)
        return DECLS + "\n".join(d.src(pr, 0) for d in self.decls) + "\n"

    def run(self, limits=None, stop_at_error=False):
        """returns (bindings dict name->value | ('violation', kind at name), machine)"""
        m = Machine(limits)
        m.stop_at_error = stop_at_error
        env = Env()
        res = {}
        try:
            for d in self.decls:
                d.run(env, m)
                if isinstance(d, LetDecl):
                    res[d.name] = env.vars[d.name]
        except Violation as v:
            return res, m, v.kind
        return res, m, None

    def call(self, env_after, name, m):
        pass


def value_to_model(v):
    """model value -> batch model value (for comparison with a dump)"""
    from .batch import Err, Opt, NONE, Uni, Skip
    if is_err(v):
        return Err()
    if isinstance(v, (bool, int, str)):
        return v
    if isinstance(v, tuple):
        return tuple(value_to_model(x) for x in v)
    if isinstance(v, list):
        return [value_to_model(x) for x in v]
    if isinstance(v, OptV):
        return Opt(value_to_model(v.v)) if v.has else NONE
    if isinstance(v, StructV):
        return tuple(value_to_model(x) for x in v.fields)
    if isinstance(v, UnionV):
        return Uni(v.idx, value_to_model(v.v))
    if isinstance(v, Closure):
        return Skip()
    raise ValueError(v)


def has_nested_error(v):
    """an error inside a compound cannot exist (construction propagates it)"""
    return False
