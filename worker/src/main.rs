//! xrv-worker: executes case files against the real interpreter (built from /repo's working tree
//! with the `verif` hooks on) and writes one observation line per case.
//!
//! usage: xrv-worker <cases.jsonl> <observations.jsonl> [start_index]
//!
//! Online monitors hosted here: panic hook + catch_unwind, recording doubles for the writer /
//! clock / rng, shape walker and dump (through the hooks), byte-account and call tallies.
use rand::rngs::StdRng;
use rand::{RngCore, SeedableRng};
use serde_json::{json, Map, Value};
use std::cell::RefCell;
use std::collections::HashSet;
use std::fs::File;
use std::io::{BufRead, BufReader, Write};
use std::panic::{catch_unwind, AssertUnwindSafe};
use std::sync::atomic::{AtomicU64, Ordering};
use std::sync::{Arc, Mutex};
use std::time::{Duration, Instant};
use xray::builtin::builtin_permissions as bp;
use xray::permissions::PermissionSet;
use xray::root_runtime_scope::{GetUniqueFunctionError, RootEvaluationScope};
use xray::runtime::{RTCell, RuntimeLimits};
use xray::std_compilation_scope;
use xray::time_provider::TimeProvider;
use xray::xexpr::TailedEvalResult;

// ---------------------------------------------------------------------------------------------
// recording doubles

#[derive(Default)]
struct Rec {
    out: Vec<u8>,
    writes: u64,
    clock_reads: u64,
    rng_created: u64,
    rng_draws: u64,
    seed: u64,
    clock: f64,
    clock_step: f64,
    fail_write_after: Option<u64>,
    panic: Option<Value>,
    /// C10 time clause: when (ms after the limits were created) each write happened
    t0: Option<Instant>,
    write_ms: Vec<f64>,
}

thread_local! {
    static REC: RefCell<Rec> = RefCell::new(Rec::default());
}

fn rec<Rv>(f: impl FnOnce(&mut Rec) -> Rv) -> Rv {
    REC.with(|r| f(&mut r.borrow_mut()))
}

struct RecWriter;
impl Write for RecWriter {
    fn write(&mut self, buf: &[u8]) -> std::io::Result<usize> {
        rec(|r| {
            r.writes += 1;
            if let Some(n) = r.fail_write_after {
                if r.writes > n {
                    return Err(std::io::Error::new(std::io::ErrorKind::Other, "injected"));
                }
            }
            if let Some(t0) = r.t0 {
                if r.write_ms.len() < 200_000 {
                    r.write_ms.push(t0.elapsed().as_secs_f64() * 1000.0);
                }
            }
            r.out.extend_from_slice(buf);
            Ok(buf.len())
        })
    }
    fn flush(&mut self) -> std::io::Result<()> {
        Ok(())
    }
}

struct RecClock;
impl TimeProvider for RecClock {
    fn unix_now(&self) -> f64 {
        rec(|r| {
            r.clock_reads += 1;
            r.clock + r.clock_step * ((r.clock_reads - 1) as f64)
        })
    }
}

struct RecRng(StdRng);
impl RngCore for RecRng {
    fn next_u32(&mut self) -> u32 {
        rec(|r| r.rng_draws += 1);
        self.0.next_u32()
    }
    fn next_u64(&mut self) -> u64 {
        rec(|r| r.rng_draws += 1);
        self.0.next_u64()
    }
    fn fill_bytes(&mut self, dest: &mut [u8]) {
        rec(|r| r.rng_draws += 1);
        self.0.fill_bytes(dest)
    }
    fn try_fill_bytes(&mut self, dest: &mut [u8]) -> Result<(), rand::Error> {
        rec(|r| r.rng_draws += 1);
        self.0.try_fill_bytes(dest)
    }
}
impl SeedableRng for RecRng {
    type Seed = [u8; 32];
    fn from_seed(seed: Self::Seed) -> Self {
        rec(|r| r.rng_created += 1);
        RecRng(StdRng::from_seed(seed))
    }
    fn from_entropy() -> Self {
        let seed = rec(|r| {
            r.rng_created += 1;
            r.seed
        });
        RecRng(StdRng::seed_from_u64(seed))
    }
}

type W = RecWriter;
type R = RecRng;
type T = RecClock;

// ---------------------------------------------------------------------------------------------

static DEADLINE_MS: AtomicU64 = AtomicU64::new(u64::MAX);

fn violation_name(v: &dyn std::fmt::Debug) -> String {
    let s = format!("{v:?}");
    if s.starts_with("OutputFailure") {
        "OutputFailure".to_string()
    } else {
        s
    }
}

fn take_panic() -> Value {
    rec(|r| r.panic.take()).unwrap_or(json!({"msg": "<no panic info>"}))
}

fn snapshot(rt: Option<&RTCell<W, R, T>>) -> Value {
    let c = xray::verif::counters();
    let (out_len, writes, clock_reads, rng_created, rng_draws) =
        rec(|r| (r.out.len(), r.writes, r.clock_reads, r.rng_created, r.rng_draws));
    let v = json!({
        "ud_calls": c.ud_calls, "tail_iters": c.tail_iters, "max_tail_run": c.max_tail_run,
        "frames": c.frames, "max_height": c.max_height, "depth_rejections": c.depth_rejections,
        "allocs_ok": c.allocs_ok, "allocs_failed": c.allocs_failed, "deallocs": c.deallocs,
        "peak_bytes": c.peak_bytes, "peak_bytes_incl_failed": c.peak_bytes_incl_failed,
        "live_objects": c.live_objects, "live_bytes": c.live_bytes as i64,
        "perm_granted": c.perm_granted, "perm_denied": c.perm_denied,
        "acct_bytes": rt.map(|rt| rt.verif_accounted_bytes()),
        "acct_calls": rt.map(|rt| rt.verif_ud_calls()),
        "out_len": out_len, "writes": writes, "clock_reads": clock_reads,
        "rng_created": rng_created, "rng_draws": rng_draws,
    });
    // only non-zero entries are written
    let Value::Object(m) = v else { unreachable!() };
    Value::Object(
        m.into_iter()
            .filter(|(_, v)| !(v.is_null() || v.as_i64() == Some(0)))
            .collect(),
    )
}

fn limits_from(case: &Value) -> RuntimeLimits {
    let l = &case["limits"];
    let u = |k: &str| l[k].as_u64().map(|x| x as usize);
    let mut perms = PermissionSet::default();
    if let Some(p) = case["perms"].as_object() {
        for (k, v) in p {
            let perm = match k.as_str() {
                "now" => &bp::NOW,
                "print" => &bp::PRINT,
                "print_debug" => &bp::PRINT_DEBUG,
                "random" => &bp::RANDOM,
                "regex" => &bp::REGEX,
                "sleep" => &bp::SLEEP,
                _ => continue,
            };
            match v.as_bool() {
                Some(true) => perms.allow(perm),
                Some(false) => perms.forbid(perm),
                None => {}
            }
        }
    }
    RuntimeLimits {
        size_limit: u("size"),
        depth_limit: u("depth"),
        recursion_limit: u("recursion"),
        ud_call_limit: u("ud_call"),
        maximum_search: u("search"),
        time_limit: l["time_ms"].as_u64().map(Duration::from_millis),
        permissions: perms,
    }
}

fn events_json() -> Value {
    let (log, dropped) = xray::verif::take_log();
    let evs: Vec<Value> = log
        .iter()
        .map(|e| {
            use xray::verif::Event::*;
            match e {
                UdCall => json!(["call"]),
                TailIter(n) => json!(["tail", n]),
                Frame(h) => json!(["frame", h]),
                DepthReject(h) => json!(["reject", h]),
                Alloc { bytes, total, ok } => json!(["alloc", bytes, total, ok]),
                Dealloc { bytes } => json!(["dealloc", bytes]),
                Perm { id, granted } => json!(["perm", id, granted]),
            }
        })
        .collect();
    json!({"log": evs, "dropped": dropped})
}

fn signatures() -> Value {
    let comp = std_compilation_scope::<W, R, T>();
    let sigs: Vec<Value> = comp
        .verif_signatures()
        .into_iter()
        .map(|(n, s, d)| json!({"name": n, "static": s, "dynamic": d}))
        .collect();
    let types: Vec<Value> = comp
        .verif_type_names()
        .into_iter()
        .map(|(n, t)| json!([n, t]))
        .collect();
    json!({"functions": sigs, "types": types, "variables": comp.verif_variable_names()})
}

fn run_case(case: &Value) -> Value {
    let mut obs = Map::new();
    obs.insert("id".into(), case["id"].clone());
    if case["mode"] == "signatures" {
        obs.insert("signatures".into(), signatures());
        return Value::Object(obs);
    }
    if case["mode"] == "canary_panic" {
        let r = catch_unwind(|| {
            let v: Vec<u32> = vec![];
            let i = v.len() + 3;
            v[i]
        });
        obs.insert("canary".into(), json!({"panicked": r.is_err(), "panic": take_panic()}));
        return Value::Object(obs);
    }
    let src = case["source"].as_str().unwrap_or("");
    rec(|r| {
        *r = Rec {
            seed: case["rng_seed"].as_u64().unwrap_or(0),
            clock: case["clock"].as_f64().unwrap_or(1_700_000_000.0),
            clock_step: case["clock_step"].as_f64().unwrap_or(0.0),
            fail_write_after: case["fail_write_after"].as_u64(),
            ..Default::default()
        }
    });
    let log_cap = case["log_events"].as_u64().unwrap_or(0) as usize;
    xray::verif::reset(log_cap);
    let per = case["dump"]["per"].as_u64().unwrap_or(64) as usize;
    let nodes = case["dump"]["nodes"].as_u64().unwrap_or(4000) as usize;
    let do_dump = !case["dump"].is_null() || case["dump_all"].as_bool().unwrap_or(true);
    let do_shape = case["shape"].as_bool().unwrap_or(true);

    let t0 = Instant::now();
    let mut comp = std_compilation_scope::<W, R, T>();
    let names_before: HashSet<String> = comp.verif_variable_names().into_iter().collect();
    let prelude_snap = snapshot(None);

    // ---- compile
    let mut compile = Map::new();
    let repeat = case["compile_repeat"].as_u64().unwrap_or(0);
    let feed = catch_unwind(AssertUnwindSafe(|| match comp.feed_file(src) {
        Ok(()) => Ok(()),
        Err(e) => Err(format!("{e}")),
    }));
    let mut compiled = false;
    match feed {
        Ok(Ok(())) => {
            compile.insert("ok".into(), json!(true));
            compiled = true;
        }
        Ok(Err(msg)) => {
            compile.insert("ok".into(), json!(false));
            let class = msg
                .rfind('[')
                .filter(|_| msg.ends_with(']'))
                .map(|i| msg[i + 1..msg.len() - 1].to_string())
                .unwrap_or_else(|| "Syntax".to_string());
            compile.insert("class".into(), json!(class));
            compile.insert("err".into(), json!(msg));
        }
        Err(_) => {
            compile.insert("ok".into(), json!(false));
            compile.insert("panic".into(), take_panic());
        }
    }
    // same-process repetitions on fresh compilers (C12)
    let mut reps = vec![];
    for _ in 0..repeat {
        let r = catch_unwind(AssertUnwindSafe(|| {
            let mut c2 = std_compilation_scope::<W, R, T>();
            match c2.feed_file(src) {
                Ok(()) => json!({"ok": true}),
                Err(e) => json!({"ok": false, "err": format!("{e}")}),
            }
        }));
        reps.push(match r {
            Ok(v) => v,
            Err(_) => json!({"panic": take_panic()}),
        });
    }
    if repeat > 0 {
        compile.insert("repeats".into(), json!(reps));
    }
    compile.insert("ms".into(), json!(t0.elapsed().as_secs_f64() * 1000.0));
    // touches of the doubles / hook events before any runtime exists
    let pre = snapshot(None);
    compile.insert("pre_runtime".into(), json!({"prelude": prelude_snap, "after_feed": pre}));
    obs.insert("compile".into(), Value::Object(compile));
    if !compiled || case["compile_only"].as_bool().unwrap_or(false) {
        return Value::Object(obs);
    }

    // ---- instantiate
    let limits = limits_from(case);
    if case["write_times"].as_bool().unwrap_or(false) {
        rec(|r| {
            r.t0 = Some(Instant::now());
            r.write_ms.clear();
        });
    }
    let rt: RTCell<W, R, T> = limits.to_runtime(RecWriter, RecClock);
    xray::verif::reset(log_cap);
    let t1 = Instant::now();
    let inst = catch_unwind(AssertUnwindSafe(|| {
        RootEvaluationScope::from_compilation_scope(&comp, rt.clone())
    }));
    let inst_ms = t1.elapsed().as_secs_f64() * 1000.0;
    let scope = match inst {
        Ok(Ok(scope)) => {
            obs.insert("instantiate".into(), json!({"outcome": "ok", "ms": inst_ms, "snap": snapshot(Some(&rt))}));
            scope
        }
        Ok(Err(v)) => {
            obs.insert(
                "instantiate".into(),
                json!({"outcome": "violation", "violation": violation_name(&v), "ms": inst_ms, "snap": snapshot(Some(&rt))}),
            );
            obs.insert("after_drop".into(), snapshot(Some(&rt)));
            finish(&mut obs, log_cap);
            return Value::Object(obs);
        }
        Err(_) => {
            obs.insert(
                "instantiate".into(),
                json!({"outcome": "panic", "panic": take_panic(), "ms": inst_ms, "snap": snapshot(Some(&rt))}),
            );
            finish(&mut obs, log_cap);
            return Value::Object(obs);
        }
    };

    // ---- calls
    let mut call_results = vec![];
    let mut call_obs = vec![];
    if let Some(calls) = case["calls"].as_array() {
        for c in calls {
            let name = c["fn"].as_str().unwrap_or("");
            if c["reset_calls"].as_bool().unwrap_or(false) {
                rt.reset_ud_calls();
            }
            if c["reset_timeout"].as_bool().unwrap_or(false) {
                rt.reset_timeout();
            }
            let mut o = Map::new();
            o.insert("fn".into(), json!(name));
            let f = match scope.get_user_defined_function(name) {
                Ok(f) => f,
                Err(e) => {
                    let e = match e {
                        GetUniqueFunctionError::ForwardRefFunction(v) => format!("ForwardRefFunction({v:?})"),
                        other => format!("{other:?}"),
                    };
                    o.insert("outcome".into(), json!("unavailable"));
                    o.insert("why".into(), json!(e));
                    call_obs.push(o);
                    call_results.push(None);
                    continue;
                }
            };
            let t2 = Instant::now();
            let r = catch_unwind(AssertUnwindSafe(|| scope.run_function(f, vec![])));
            o.insert("ms".into(), json!(t2.elapsed().as_secs_f64() * 1000.0));
            match r {
                Ok(Ok(TailedEvalResult::Value(v))) => {
                    o.insert("outcome".into(), json!("ok"));
                    call_results.push(Some(v));
                }
                Ok(Ok(TailedEvalResult::TailCall(_))) => {
                    o.insert("outcome".into(), json!("tailcall_escaped"));
                    call_results.push(None);
                }
                Ok(Err(v)) => {
                    o.insert("outcome".into(), json!("violation"));
                    o.insert("violation".into(), json!(violation_name(&v)));
                    call_results.push(None);
                }
                Err(_) => {
                    o.insert("outcome".into(), json!("panic"));
                    o.insert("panic".into(), take_panic());
                    call_results.push(None);
                }
            }
            o.insert("snap".into(), snapshot(Some(&rt)));
            call_obs.push(o);
        }
    }
    let effects_out_len = rec(|r| r.out.len());

    // ---- exported bindings and call results: type, shape, dump (may force lazy values)
    let exports: Vec<String> = match case["exports"].as_array() {
        Some(a) => a.iter().filter_map(|x| x.as_str().map(|s| s.to_string())).collect(),
        None => {
            let mut v: Vec<String> = comp
                .verif_variable_names()
                .into_iter()
                .filter(|n| !names_before.contains(n))
                .collect();
            v.sort();
            v
        }
    };
    let mut bindings = Map::new();
    for name in &exports {
        let mut b = Map::new();
        match scope.get_value(name) {
            Err(e) => {
                b.insert("missing".into(), json!(format!("{e:?}")));
            }
            Ok(v) => {
                let t = comp.verif_variable_type(name);
                if let Some(t) = &t {
                    b.insert("type".into(), json!(comp.describe_type(t.clone())));
                    if do_shape {
                        let r = catch_unwind(AssertUnwindSafe(|| scope.verif_shape(v, t, per, nodes)));
                        match r {
                            Ok(Ok(())) => {}
                            Ok(Err(m)) => {
                                b.insert("shape".into(), json!(m));
                            }
                            Err(_) => {
                                b.insert("force_panic".into(), take_panic());
                            }
                        }
                    }
                }
                if do_dump {
                    let r = catch_unwind(AssertUnwindSafe(|| scope.verif_dump(v, per, nodes)));
                    match r {
                        Ok(d) => {
                            b.insert("dump".into(), d);
                        }
                        Err(_) => {
                            b.insert("force_panic".into(), take_panic());
                        }
                    }
                }
                if let Ok(v) = v {
                    b.insert("rsize".into(), json!(v.verif_recorded_size()));
                }
            }
        }
        bindings.insert(name.clone(), Value::Object(b));
    }
    obs.insert("bindings".into(), Value::Object(bindings));
    for (o, r) in call_obs.iter_mut().zip(call_results.iter()) {
        if let Some(v) = r {
            let name = o["fn"].as_str().unwrap().to_string();
            if let Some(spec) = comp.verif_function_spec(&name) {
                o.insert("type".into(), json!(comp.describe_type(spec.ret.clone())));
                if do_shape {
                    let r = catch_unwind(AssertUnwindSafe(|| scope.verif_shape(v, &spec.ret, per, nodes)));
                    match r {
                        Ok(Ok(())) => {}
                        Ok(Err(m)) => {
                            o.insert("shape".into(), json!(m));
                        }
                        Err(_) => {
                            o.insert("force_panic".into(), take_panic());
                        }
                    }
                }
            }
            if do_dump {
                let r = catch_unwind(AssertUnwindSafe(|| scope.verif_dump(v, per, nodes)));
                match r {
                    Ok(d) => {
                        o.insert("dump".into(), d);
                    }
                    Err(_) => {
                        o.insert("force_panic".into(), take_panic());
                    }
                }
            }
        }
    }
    obs.insert("calls".into(), json!(call_obs));
    obs.insert("after_dump".into(), snapshot(Some(&rt)));

    // ---- output (bytes written before the dump phase are the program's own effects)
    let (out, _) = rec(|r| (r.out.clone(), r.writes));
    obs.insert(
        "output".into(),
        json!(String::from_utf8_lossy(&out[..effects_out_len.min(out.len())])),
    );
    if out.len() > effects_out_len {
        obs.insert(
            "dump_output".into(),
            json!(String::from_utf8_lossy(&out[effects_out_len..])),
        );
    }

    // ---- drop everything, the account must be back at its baseline
    drop(call_results);
    let dropped = catch_unwind(AssertUnwindSafe(move || drop(scope)));
    if dropped.is_err() {
        obs.insert("drop_panic".into(), take_panic());
    }
    obs.insert("after_drop".into(), snapshot(Some(&rt)));
    finish(&mut obs, log_cap);
    Value::Object(obs)
}

fn finish(obs: &mut Map<String, Value>, log_cap: usize) {
    if log_cap > 0 {
        obs.insert("events".into(), events_json());
    }
    let wt = rec(|r| if r.t0.is_some() { Some(std::mem::take(&mut r.write_ms)) } else { None });
    if let Some(wt) = wt {
        let n = wt.len();
        let head: Vec<f64> = wt.iter().take(20).cloned().collect();
        let tail: Vec<f64> = wt.iter().skip(n.saturating_sub(200)).cloned().collect();
        obs.insert("write_times".into(), json!({"n": n, "head": head, "tail": tail}));
    }
}

fn main() {
    let args: Vec<String> = std::env::args().collect();
    if args.len() < 3 {
        eprintln!("usage: xrv-worker <cases.jsonl> <observations.jsonl> [start_index]");
        std::process::exit(2);
    }
    let start: usize = args.get(3).and_then(|s| s.parse().ok()).unwrap_or(0);
    let case_timeout_ms: u64 = std::env::var("XRV_CASE_TIMEOUT_MS")
        .ok()
        .and_then(|s| s.parse().ok())
        .unwrap_or(20_000);
    let input = BufReader::new(File::open(&args[1]).expect("open cases"));
    let out = Arc::new(Mutex::new(
        std::fs::OpenOptions::new()
            .create(true)
            .append(true)
            .open(&args[2])
            .expect("open observations"),
    ));
    std::panic::set_hook(Box::new(|info| {
        let msg = if let Some(s) = info.payload().downcast_ref::<&str>() {
            s.to_string()
        } else if let Some(s) = info.payload().downcast_ref::<String>() {
            s.clone()
        } else {
            "<non-string panic>".to_string()
        };
        let (file, line) = info
            .location()
            .map(|l| (l.file().to_string(), l.line()))
            .unwrap_or_default();
        rec(|r| {
            if r.panic.is_none() {
                r.panic = Some(json!({"msg": msg, "file": file, "line": line}));
            }
        });
    }));
    let epoch = Instant::now();
    {
        // watchdog: a case that does not return is reported and the process ends
        let out = out.clone();
        std::thread::spawn(move || loop {
            std::thread::sleep(Duration::from_millis(50));
            let d = DEADLINE_MS.load(Ordering::SeqCst);
            if d != u64::MAX && epoch.elapsed().as_millis() as u64 > d {
                if let Ok(mut f) = out.lock() {
                    let _ = writeln!(f, "TIMEOUT");
                    let _ = f.flush();
                }
                std::process::exit(97);
            }
        });
    }
    let out2 = out.clone();
    let worker = std::thread::Builder::new()
        .stack_size(1 << 30)
        .spawn(move || {
            for (idx, line) in input.lines().enumerate() {
                if idx < start {
                    continue;
                }
                let line = line.expect("read");
                if line.trim().is_empty() {
                    continue;
                }
                let case: Value = match serde_json::from_str(&line) {
                    Ok(v) => v,
                    Err(e) => {
                        let mut f = out2.lock().unwrap();
                        writeln!(f, "BADCASE {idx} {e}").unwrap();
                        continue;
                    }
                };
                {
                    let mut f = out2.lock().unwrap();
                    writeln!(f, "BEGIN {idx}").unwrap();
                    f.flush().unwrap();
                }
                let t = case["timeout_ms"].as_u64().unwrap_or(case_timeout_ms);
                DEADLINE_MS.store(epoch.elapsed().as_millis() as u64 + t, Ordering::SeqCst);
                let started = Instant::now();
                let mut obs = run_case(&case);
                DEADLINE_MS.store(u64::MAX, Ordering::SeqCst);
                obs["wall_ms"] = json!(started.elapsed().as_secs_f64() * 1000.0);
                obs["idx"] = json!(idx);
                let mut f = out2.lock().unwrap();
                writeln!(f, "{}", serde_json::to_string(&obs).unwrap()).unwrap();
                f.flush().unwrap();
            }
        })
        .expect("spawn");
    let r = worker.join();
    if r.is_err() {
        std::process::exit(98);
    }
}
