#!/usr/bin/env python3
"""apply a seeded change to /repo, run checks against it, undo it:  tools/try_seed.py seeded/C03/1 [Cxx ...] [--tier quick]
(the change is never committed to /repo; nothing else may run against /repo meanwhile)"""
import json, os, subprocess, sys, time
ROOT = os.path.dirname(os.path.dirname(os.path.abspath(__file__)))


def sh(cmd, **kw):
    return subprocess.run(cmd, shell=True, text=True, capture_output=True, **kw)


def main():
    args = [a for a in sys.argv[1:] if not a.startswith("--")]
    tier = "thorough" if "--thorough" in sys.argv else "quick"
    d = os.path.abspath(args[0])
    meta = json.load(open(os.path.join(d, "meta.json")))
    checks = args[1:] or [meta["property"]]
    if sh("git -C /repo status --porcelain").stdout.strip():
        print("refusing: /repo has uncommitted changes")
        return 2
    p = sh(f"git -C /repo apply {d}/patch.diff")
    if p.returncode != 0:
        print("patch does not apply:", p.stderr[:500])
        return 2
    res = {"seed": os.path.relpath(d, ROOT), "tier": tier, "checks": {}}
    try:
        for c in checks:
            t0 = time.time()
            r = sh(f"./check {c} --tier {tier}", cwd=ROOT)
            viol = [l for l in r.stdout.splitlines() if l.startswith("VIOLATION") or l.strip().startswith("signature:")]
            res["checks"][c] = {"exit": r.returncode, "caught": r.returncode == 1 and any(l.startswith("VIOLATION") for l in viol), "lines": viol[:12], "seconds": round(time.time() - t0, 1),
                                "summary": (r.stdout.strip().splitlines() or [""])[-1]}
            print(c, "exit", r.returncode, "CAUGHT" if res["checks"][c]["caught"] else "missed", res["checks"][c]["summary"])
            for l in viol[:6]:
                print("   ", l[:200])
    finally:
        sh("git -C /repo checkout -- .")
    json.dump(res, open(os.path.join(d, f"result_{tier}.json"), "w"), indent=1)
    return 0


if __name__ == "__main__":
    sys.exit(main())
