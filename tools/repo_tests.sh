#!/bin/sh
# the repository's own suite with the hook feature off (433 tests)
cd /repo && cargo test --workspace --no-fail-fast --offline 2>&1 | grep -E "^test result|FAILED|failed"
