#!/bin/sh
# scratch worktree of /repo for a seeded-mutation agent: tools/mk_seed_worktree.sh C03   (removed again with rm_seed_worktree.sh)
set -e
id=$1
d=/tmp/seed/$id
mkdir -p $d/out
git -C /repo worktree add -q --detach $d/repo HEAD
mkdir -p $d/repo/examples
cp /tmp/seedkit/xrun.rs $d/repo/examples/xrun.rs
cp /tmp/seedkit/hello.xr $d/hello.xr
python3 - "$id" "$d" <<'PY'
import json, sys
pid, d = sys.argv[1], sys.argv[2]
for l in open('/verif/properties.jsonl'):
    p = json.loads(l)
    if p['id'] == pid:
        a = p.get('anchors', {})
        txt = f"# {p['title']}\n\n{p['statement']}\n\nQuantified over: {p['quantifier']['text']}\n\nWhy the existing tests cannot settle it: {p['why_tests_cant']}\n\nSource files involved: {', '.join(a.get('files', []))}\n\nMechanisms:\n" + "\n".join(f"- {m['name']} ({m['where']})" for m in a.get('mechanism', [])) + "\n"
        open(d + '/PROPERTY.md', 'w').write(txt)
PY
echo $d
