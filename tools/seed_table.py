#!/usr/bin/env python3
"""markdown table of the seeded changes and which checks caught them (from seeded/*/*/meta.json + result_*.json)"""
import glob, json, os
ROOT = os.path.dirname(os.path.dirname(os.path.abspath(__file__)))
rows = []
for d in sorted(glob.glob(os.path.join(ROOT, "seeded", "*", "*"))):
    if not os.path.exists(os.path.join(d, "meta.json")):
        continue
    m = json.load(open(os.path.join(d, "meta.json")))
    res = {}
    for f in sorted(glob.glob(os.path.join(d, "result_*.json"))):
        r = json.load(open(f))
        for c, v in r["checks"].items():
            res[f"{c}/{r['tier']}"] = "caught" if v["caught"] else "missed"
    rows.append((os.path.relpath(d, ROOT), m.get("summary", "")[:150].replace("|", "/"), ", ".join(f"{k}: {v}" for k, v in res.items())))
print("| seeded change | what it does | checks run against it |\n|---|---|---|")
for r in rows:
    print("| " + " | ".join(r) + " |")
