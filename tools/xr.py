#!/usr/bin/env python3
"""evaluate one xray program under the worker and print the observation (debug aid): tools/xr.py 'let r = 1+1;' ['{"size":1000}']"""
import json, os, sys
sys.path.insert(0, os.path.dirname(os.path.dirname(os.path.abspath(__file__))))
from xrv import core
from xrv.ctx import Ctx
ctx = Ctx("C01", "quick", 0)
c = {"id": "x", "source": sys.argv[1], "dump": {"per": 40, "nodes": 400}, "perms": {"regex": True, "sleep": True}, "timeout_ms": 20000}
if len(sys.argv) > 2:
    c["limits"] = json.loads(sys.argv[2])
o = ctx.run([c], name="xr")[0]
for k in ("compile", "instantiate"):
    print(k, json.dumps(o.get(k))[:600])
for n, b in (o.get("bindings") or {}).items():
    print(" ", n, ":", b.get("type"), json.dumps(core.strip_dump(b.get("dump")))[:400], b.get("shape") or "", b.get("force_panic") or "")
print("output", o.get("output"), {k: o.get(k) for k in ("timeout", "died", "rc") if o.get(k)})
