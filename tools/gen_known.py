#!/usr/bin/env python3
"""regenerate the 'fixed' entries of known_findings.jsonl from /repo's fix: commits (open entries are kept by hand below)"""
import json, os, subprocess
ROOT = os.path.dirname(os.path.dirname(os.path.abspath(__file__)))
# property a fix is recorded under (first matching keyword in the commit subject)
RULES = [
    ("rectangular_distribution", "C01"), ("sampling a binomial", "C10"), ("skip(n)", "C10"), ("time limit", "C10"), ("multinom", "C10"), ("sample(seq", "C10"), ("pow size pre-check", "C10"), ("pow with an exponent", "C10"), ("common type of two instances", "C04"), ("callable-typed value was assignable", "C04"), ("two function types compared equal", "C04"), ("default-value", "C04"), ("calls through", "C04"), ("dynamic (library) overloads", "C05"), ("default value let the default", "C04"), ("optional compared equal", "C04"), ("turbofish", "C12"), ("exponential compile time", "C12"), ("hash-set order", "C12"), ("forward", "C03"), ("grammar: an identifier", "C03"), ("grammar: 'struct'", "C03"), ("user-defined function", "C06"), ("zip of sequences", "C06"), ("set_default", "C06"),
    ("merge sort", "C19"), ("hash of a set/mapping", "C19"), ("format of i64::MIN", "C14"),
    ("generator", "C16"), ("generators", "C16"),
    ("sequence", "C15"), ("range", "C15"), ("combination", "C15"), ("to_array", "C15"),
    ("str ", "C18"), ("substring", "C18"), ("FencedString", "C18"), ("formatted string", "C18"), ("escaped quote", "C18"),
    ("to_float", "C13"),
    ("LazyBigint", "C14"), ("int ", "C14"), ("lcm", "C14"), ("floor_root", "C14"), ("9223372036854775808", "C14"),
]
OPEN = [
    {"id": "K-C06-01", "property": "C06", "status": "open",
     "sig": r"^(construct:set_default(_present)?|set_default<K, V>\(Mapping<K, V>, K, V\)->Mapping<K, V>)\|pos\((0|1|2),?\)\|error_argument_dropped$",
     "what": "mapping set_default(m, k, v) does not evaluate v when k is present, so an error (or an effect) in v is dropped: `mapping<int>().set(1, 2).set_default(1, error(\"e\"))` is the mapping, not the error; the book does not list set_default among the short-circuit functions",
     "example": "let r0 = mapping<int>().set(1, 2).set_default(1, error(\"E0\"));",
     "why_not_fixed": "the shipped test script 351 asserts exactly this behaviour (m.set_default(10, error(\"\")) == m), so evaluating v first breaks the unedited suite; the disagreement is between book and tests"},
    {"id": "K-C01-01", "property": "C01", "status": "open",
     "sig": r"^panic\|(near_miss|generated|mutant|corpus)\|(instantiate|call)\|runtime_scope\.rs:ran out of scope parents at runtime\|program_declares_forward_fn$",
     "what": "a closure that refers to a forward-declared sibling function and escapes the call that created it panics when called later ('ran out of scope parents at runtime', src/runtime_scope.rs:476): the forward reference is compiled into a PendingCapture that is resolved by walking the *dynamic* scope chain at call time, and the defining frame no longer exists",
     "example": "fn outer()->()->(int){ forward fn b()->int; fn a()->int{ b() } fn b()->int{ 5 } a }\nlet r = outer()();",
     "why_not_fixed": "the repair needs the template cells of already created closures to be patched when the forward declaration is fulfilled (templates are immutable Rc's shared with live closures): a redesign of PendingCapture, not a local patch"},
    {"id": "K-C01-02", "property": "C01", "status": "open",
     "sig": r"^panic\|.*\|statrs/(beta|gamma)\.rs:called `Result::unwrap\(\.\.\)$",
     "what": "cdf / quantile / pdf of the distributions (continuous ones, and discrete cdf / quantile) hand extreme arguments straight to statrs 0.16, whose special functions (function/beta.rs, function/gamma.rs) unwrap a domain check: e.g. fisher_snedecor_distribution(6.0, 4.0).cdf(1e308) or quantile(students_t_distribution(1.0000000000000002, 1e308), 2.2e-308) panic inside the dependency",
     "example": "let d = fisher_snedecor_distribution(6.0, 4.0);\nlet r = d.cdf(1e308);",
     "why_not_fixed": "the domain of every statrs special function would have to be re-validated in each of the ~40 distribution wrappers (or the dependency upgraded to a release that returns errors): not a minimal patch"},
    {"id": "K-C03-01", "property": "C03", "status": "open",
     "sig": r"^(escaping_forward:.*|generated_with_forward_fn_inside_a_function)\|panic:runtime_scope\.rs:ran out of scope parents at runtime$",
     "what": "same defect as K-C01-01 seen through C03: a function declared between a `forward fn` and its implementation *inside a function body* keeps a lazily resolved reference; when it (or a closure calling it) is returned and called after that body has finished, the call panics instead of using the binding of its defining scope (top-level forward declarations were repaired, see the fixed entries)",
     "example": "fn outer()->()->(int){ forward fn b()->int; fn a()->int{ b() } fn b()->int{ 5 } a }\nlet r = outer()();",
     "why_not_fixed": "see K-C01-01"},
    {"id": "K-C10-02", "property": "C10", "status": "open",
     "sig": r"^no_return\|(num:(gamma|chisq)_distribution\(.*\)\.(quantile|cdf)\(.*|(quantile|cdf)\(ContinuousDistribution, float\)->float)$",
     "what": "cdf / quantile of a gamma (or chi-squared) distribution with an astronomically large shape (gamma_distribution(1e19, 1.0).cdf(1e19), chisq_distribution(9223372036854775807).quantile(0.5)) does not return: statrs' incomplete gamma iteration grows with the shape (1e15 already takes seconds) and is consulted against no limit; same root as K-C10-01",
     "example": "let r0 = gamma_distribution(1.0e19, 1.0).cdf(1.0e19);"},
    {"id": "K-C10-01", "property": "C10", "status": "open",
     "sig": r"^no_return\|(num:(poisson|binomial|hypergeometric|negative_binomial|geometric)_distribution\(.*\)\.(quantile|cdf|pmf)\(.*|(quantile|cdf|pmf)\(DiscreteDistribution, (float|int)\)->(int|float))$",
     "what": "cdf / quantile of a discrete distribution with an astronomically large parameter (poisson_distribution(1.8e19).quantile(0.5)) does not return: every cdf evaluation runs statrs' incomplete gamma / beta iteration, whose number of steps grows with the parameter and is consulted against no limit",
     "example": "let r0 = poisson_distribution(18446744073709551616.to_float()).quantile(0.5);",
     "why_not_fixed": "the loop is inside the statrs dependency; bounding it needs either a parameter ceiling (a behaviour change for valid inputs) or a different algorithm for large parameters"},
    {"id": "K-C04-01", "property": "C04", "status": "open",
     "sig": r"^(bottom_through_generic|least_common_type|terms)\|[a-z_]+\|(rejected_although_assignable:[A-Za-z]+\|[^|]*\|[^|]*|inferred_type_is_not_the_least_common_type)\|dangling_generic_parameter$",
     "what": "when an argument of the bottom type meets a generic parameter of a library function or generic compound (some(error(..)), G1(error(..)), [].to_array(), if(c, error(..), error(..))), the parameter is left unbound instead of being bound to the bottom type: the resulting type keeps a dangling name (Optional<T>, G1<A>, Sequence<T>) that is assignable to nothing and has no common type with anything, so programs the rules accept are rejected (IncompatibleTypes / VariableTypeMismatch) and inferred types are not the least common type",
     "example": "struct G1<A>(a: A)\nlet v_ = [G1(1), G1(error('e'))];",
     "why_not_fixed": "binding the parameter to the bottom type (reordering two arms of bind_in_assignment) makes the declared-type check inside generic functions fail (`let r: Stack<T> = stack()`, 4 shipped scripts): the same routine serves call-site binding and rigid declared-type checks, which have to be separated first"},
    {"id": "K-C04-02", "property": "C04", "status": "open",
     "sig": r"^rigid_generic\|(callable_parameter_call|lambda_variable_call)\|accepted_although_not_assignable\|.*$",
     "what": "inside fn host<T>(s: int, g: (T)->(int)) the call g(s) is accepted: the argument check of a call through a callable value lets the argument bind the enclosing function's type parameter; host(1, (x: str)->{x.len()}) then passes an int where a str is promised (panic: expected String, got Int)",
     "example": "fn host<T>(s: int, g: (T)->(int))->int{ g(s) }\nlet r = host(1, (x: str)->{x.len()});",
     "why_not_fixed": "requiring an empty binding there breaks shipped scripts 399-401: to_eq / to_cmp / to_lt return callables whose parameters are dangling type parameters (see K-C04-01) and only work because of this hole"},
    {"id": "K-C01-03", "property": "C01", "status": "open",
     "sig": r"^panic\|(near_miss|generated|mutant|corpus)\|(instantiate|call)\|[a-z_]+\.rs:error when converting primitive.*\|program_calls_the_result_of_to_cmp_to_eq_or_to_lt$",
     "what": "to_cmp / to_eq / to_lt return a callable whose parameter types are dangling type parameters (T, T)->(..) (K-C04-01); a call through it is checked argument by argument and each argument may bind T afresh (K-C04-02), so cmp_(4, 1.5) or eq_('a', 'b') is accepted for a key function on int and the key function receives a value of the wrong type",
     "example": "let k = (i: int)->{ i % 3 };\nlet cmp_ = k.to_cmp();\nlet r = cmp_(4, 12345678901234567890.5);",
     "why_not_fixed": "see K-C04-01 / K-C04-02: shipped scripts 399-401 depend on the hole"},
    {"id": "K-C02-01", "property": "C02", "status": "open",
     "sig": r"^grammar:lt_gt_in_argument_list\|rejected$",
     "what": "`f(a < b, c > d)`: a bare name followed by `<` inside an argument / element list is parsed as a generic specialisation `a<b, c>` and the program is rejected with a syntax error (e.g. `if(x < y, y > 0, true)`); writing `(x < y)` works",
     "example": "let x = 1; let y = 2; let r0 = if(x < y, y > 0, true);",
     "why_not_fixed": "needs a grammar redesign of the `name<types>` form (PEG ordered choice commits to it); not a local patch"},
]


def main():
    log = subprocess.run(["git", "-C", "/repo", "log", "--reverse", "--format=%h %s"], capture_output=True, text=True).stdout.splitlines()
    out = ["# one JSON object per line. status \"open\": a genuine defect recorded instead of repaired (suppresses exactly the "
           "observations whose signature matches \"sig\"); status \"fixed\": repaired by a fix: commit in /repo, suppresses nothing."]
    n = 0
    for l in log:
        h, subj = l.split(" ", 1)
        if not subj.startswith("fix:"):
            continue
        prop = next((p for k, p in RULES if k in subj), "C01")
        n += 1
        out.append(json.dumps({"id": f"F-{n:02d}", "property": prop, "status": "fixed", "commit": h,
                               "what": f"fixed: property={prop} {h} {subj[4:].strip()}"}))
    for o in OPEN:
        out.append(json.dumps(o))
    open(os.path.join(ROOT, "known_findings.jsonl"), "w").write("\n".join(out) + "\n")
    print(n, "fixed entries,", len(OPEN), "open")


if __name__ == "__main__":
    main()
