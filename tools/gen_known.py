#!/usr/bin/env python3
"""regenerate the 'fixed' entries of known_findings.jsonl from /repo's fix: commits (open entries are kept by hand below)"""
import json, os, subprocess
ROOT = os.path.dirname(os.path.dirname(os.path.abspath(__file__)))
# property a fix is recorded under (first matching keyword in the commit subject)
RULES = [
    ("user-defined function", "C06"), ("zip of sequences", "C06"), ("set_default", "C06"),
    ("merge sort", "C19"), ("hash of a set/mapping", "C19"), ("format of i64::MIN", "C14"),
    ("generator", "C16"), ("generators", "C16"),
    ("sequence", "C15"), ("range", "C15"), ("combination", "C15"), ("to_array", "C15"),
    ("str ", "C18"), ("substring", "C18"), ("FencedString", "C18"), ("formatted string", "C18"), ("escaped quote", "C18"),
    ("to_float", "C13"),
    ("LazyBigint", "C14"), ("int ", "C14"), ("lcm", "C14"), ("floor_root", "C14"), ("9223372036854775808", "C14"),
]
OPEN = [
    {"id": "K-C06-01", "property": "C06", "status": "open",
     "sig": r"^(construct:set_default(_present)?|set_default<K, V>\(Mapping<K, V>, K, V\)->Mapping<K, V>)\|pos\((0|1|2),?\)\|error_argument_dropped$",
     "what": "mapping set_default(m, k, v) does not evaluate v when k is present, so an error (or an effect) in v is dropped: `mapping<int>().set(1, 2).set_default(1, error(\"e\"))` is the mapping, not the error; the book does not list set_default among the short-circuit functions",
     "example": "let r0 = mapping<int>().set(1, 2).set_default(1, error(\"E0\"));",
     "why_not_fixed": "the shipped test script 351 asserts exactly this behaviour (m.set_default(10, error(\"\")) == m), so evaluating v first breaks the unedited suite; the disagreement is between book and tests"},
    {"id": "K-C02-01", "property": "C02", "status": "open",
     "sig": r"^grammar:lt_gt_in_argument_list\|rejected$",
     "what": "`f(a < b, c > d)`: a bare name followed by `<` inside an argument / element list is parsed as a generic specialisation `a<b, c>` and the program is rejected with a syntax error (e.g. `if(x < y, y > 0, true)`); writing `(x < y)` works",
     "example": "let x = 1; let y = 2; let r0 = if(x < y, y > 0, true);",
     "why_not_fixed": "needs a grammar redesign of the `name<types>` form (PEG ordered choice commits to it); not a local patch"},
]


def main():
    log = subprocess.run(["git", "-C", "/repo", "log", "--reverse", "--format=%h %s"], capture_output=True, text=True).stdout.splitlines()
    out = ["# one JSON object per line. status \"open\": a genuine defect recorded instead of repaired (suppresses exactly the "
           "observations whose signature matches \"sig\"); status \"fixed\": repaired by a fix: commit in /repo, suppresses nothing."]
    n = 0
    for l in log:
        h, subj = l.split(" ", 1)
        if not subj.startswith("fix:"):
            continue
        prop = next((p for k, p in RULES if k in subj), "C01")
        n += 1
        out.append(json.dumps({"id": f"F-{n:02d}", "property": prop, "status": "fixed", "commit": h,
                               "what": f"fixed: property={prop} {h} {subj[4:].strip()}"}))
    for o in OPEN:
        out.append(json.dumps(o))
    open(os.path.join(ROOT, "known_findings.jsonl"), "w").write("\n".join(out) + "\n")
    print(n, "fixed entries,", len(OPEN), "open")


if __name__ == "__main__":
    main()
