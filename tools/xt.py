#!/usr/bin/env python3
"""evaluate expressions (one per argument or per line of stdin) each in its own program under the C10 limits with a short watchdog: prints outcome and time"""
import json, os, sys
sys.path.insert(0, os.path.dirname(os.path.dirname(os.path.abspath(__file__))))
from xrv import core, batch
from xrv.ctx import Ctx
ctx = Ctx("C10", "quick", 0)
exprs = sys.argv[1:] or [l.strip() for l in sys.stdin if l.strip()]
lim = json.loads(os.environ.get("LIM", '{"search": 500, "ud_call": 2000, "recursion": 1000, "size": 67108864}'))
cases = [{"id": f"x{i}", "source": f"let r0 = {e};", "exports": ["r0"], "dump": {"per": 4, "nodes": 30}, "limits": lim, "perms": {"regex": True}} for i, e in enumerate(exprs)]
obs = core.run_cases(ctx.binary, cases, "xt", case_timeout_ms=int(os.environ.get("T", "5000")), confirm=False)
for e, o in zip(exprs, obs):
    f = batch.program_failure(o)
    if f is None:
        b = batch.binding_outcome(o["bindings"].get("r0"))
        res = b["kind"] + " " + str(b.get("raw") or b.get("err") or "")[:80]
    else:
        res = f["kind"] + " " + str(f.get("violation") or f.get("class") or f.get("panic") or "")[:100]
    ms = (o.get("instantiate") or {}).get("ms")
    print(f"{res:60s} {ms and round(ms)}ms  {e}")
