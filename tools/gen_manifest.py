#!/usr/bin/env python3
"""regenerate MANIFEST.json from the table below (run after adding a check)"""
import json, os, subprocess
ROOT = os.path.dirname(os.path.dirname(os.path.abspath(__file__)))
props = [json.loads(l) for l in open(os.path.join(ROOT, "properties.jsonl"))]

DIFF = "runtime monitoring: differential oracle (independent reference model) over observed executions"
CHECKS = {
    "C14": dict(level="exploration", technique=DIFF,
                text="held on the executions observed: every generated integer expression is evaluated by the real interpreter and compared with Python integer arithmetic, including route checks (eq/hash/cmp/to_str of the same value computed differently)",
                note="trusts Python ints/fractions and the dump hook; operand classes and operations outside the generator are not covered"),
    "C18": dict(level="exploration", technique=DIFF,
                text="held on the executions observed: string builtins, helpers and every literal spelling are evaluated by the real interpreter and compared with Python str (code-point sequences) and a literal encoder written from the book",
                note="trusts Python str semantics for the generator's alphabet; tolerance sets for edges the book leaves open are listed in the evidence"),
    "C15": dict(level="exploration", technique=DIFF + "; histories with every intermediate value re-observed",
                text="held on the executions observed: generated histories of sequence operations (every representation reached is recorded) compared step by step with a list model; all intermediate values are dumped at the end, so an operation that altered its input is visible",
                note="element type int; first 48 elements of each value compared; materialising operations on ranges of ~2^60 elements are left to C10"),
    "C16": dict(level="exploration", technique=DIFF + "; pull counting through a recording writer for laziness",
                text="held on the executions observed: generator histories (each generator consumed by its consumers and again by the dump) compared with re-creatable Python streams; laziness is observed directly: the source is wrapped in display(), the lines written are the elements pulled, compared with what a maximally lazy Python pipeline pulls plus a constant per adaptor",
                note="first 40 elements compared; pipelines whose model would search without bound are not generated (C10 covers termination)"),
    "C17": dict(level="exploration", technique=DIFF + "; persistence: every version re-read after all later updates",
                text="held on the executions observed: histories of 1-40 mapping/set operations under hash functions from injective to constant and equalities coarser than identity, every version compared with an association-list model after the whole history ran; equal collections reached by different histories must also hash equally",
                note="keys compared modulo the generated equality; keys and values are ints; one hash/equality pair per history"),
    "C20": dict(level="exploration", technique=DIFF + " (independent JSON parser, rational arithmetic, civil-calendar algorithm)",
                text="held on the executions observed: serialised JSON is read back by Python's json module and compared with the document, json_deserialize(serialize(v)) == v, date/julian_day and datetime/unix round trips against an independent days-from-civil algorithm over +-3,000,000 days and +-1e11 s, fraction results against fractions.Fraction, int<->text in bases 2/8/10/16, chr/code_point over all scalar-value edges",
                note="trusts Python's json/fractions/chr and the transcription of the days-from-civil algorithm; fraction(n, 0) and 0 ** 0 are unspecified"),
    "C13": dict(level="exploration", technique="runtime monitoring: invariant monitor (finite-float walker) over every value produced by a type-directed workload on the float-related library surface",
                text="held on the executions observed: every float node of every value produced by generated calls of all float-related overloads (read from the tree's own signature table), arithmetic templates, literal spellings and JSON numbers at the edges of the double range was finite or the result was an error value",
                note="model-free; values are observed through the dump hook; overloads reached / not reached are listed in the evidence"),
    "C02": dict(level="exploration", technique=DIFF + " (independent big-step evaluator written from the book); output trace comparison through a recording writer; effect probes",
                text="held on the executions observed: typed random core programs (depth <= 6, <= 14 declarations, all surface forms randomised) agree binding by binding and output line by output line with an independent evaluator; flat operator pairs/triples agree with the documented grouping; operator/method/index sugar and user overloads of operator names take effect; textual effect probes show each argument evaluated once, left to right, and only the documented short-circuit functions skipping one",
                note="trusts the reference evaluator (xrv/corelang.py); after an error argument the remaining arguments may or may not be evaluated (both accepted); floats and big ints are out of this fragment (C13/C14)"),
    "C08": dict(level="fault_enumeration", technique="runtime monitoring: limit sweep (every limit value up to the need placed) with outcome oracle from the reference evaluator / event tally; counter-vs-event-log conservation",
                text="for generated core programs (exact call count and nesting depth from the reference evaluator), recursive skeletons (calls/depth/tail iterations known in closed form), searching builtins (elements examined known) and library functions written in the language (need learnt from the hook's event tally), every limit value from 1 to need+2 is placed: the outcome is the right violation exactly at the documented threshold and otherwise the unlimited result; the limit counter equals the tally of user-call events; run/run/reset/run host histories behave as the budget arithmetic predicts",
                note="thresholds as read from limits.md (Appendix A of DESIGN.md); quick tier places a stratified subset of limit values that always contains need-1, need, need+1"),
    "C07": dict(level="exploration", technique="runtime monitoring: closed-form result oracle + event tallies (tail iterations, frame heights) from cfg-gated hooks + depth/recursion limit probes",
                text="held on the executions observed: for 31 syntactic placements of the self-call and iteration counts 0..10^5 the result equals the closed form; placements in tail position are trampolined (tail-iteration tally = iteration count, frame height <= 2, survive depth limits 5 and 50, bounded exactly by the recursion limit); placements under operators, in arguments, inside lambdas, via an alias or through another function are never trampolined (tally 0, frame height = nesting, depth violation exactly when the nesting reaches the limit)",
                note="the classification of placements follows the book's tail-call section and the documented short-circuit list; identity wrappers (cast, to_str of a str) are only checked for their result"),
    "C09": dict(level="fault_enumeration", technique="runtime monitoring: double-entry conservation monitor (runtime byte account vs shadow ledger of live objects) + allocation-failure sweep over the recorded allocation event list",
                text="for hand-written and generated programs the allocation event list of an unlimited run gives every allocation point; a size limit is placed so that the refusal lands on each of them: the outcome is AllocationLimitReached or the unlimited result, the peak never exceeds the limit without a violation, passing is monotone in the limit, and after dropping everything the account is back at its baseline with zero live objects - also after allocation, depth, call, search, recursion, permission and output violations; recorded sizes are at least the payload; the account equals the ledger at quiescent points",
                note="quick tier samples 40 allocation points per program, thorough uses all; payload lower bounds are conservative (own payload only)"),
    "C11": dict(level="exploration", technique="runtime monitoring: recording test doubles for writer / clock / rng (every touch counted) + permission-check event log; exhaustive over the 64 permission assignments for the direct path",
                text="held on the executions observed: for all 64 explicit allow/forbid assignments plus the defaults and every effectful entry point (display x2, debug, now, random, sample x2, shuffle, random_choices x2, distribution sample/random x4, regex, sleep x2) reached directly and through 13 other paths (wrapper, closure, map/filter/reduce/sort callbacks, lazy element, default parameter, partial, struct field, generator, if branch, exported function): a forbidden effect ends in PermissionError naming it with no touch of any injected double, an allowed one is preceded by a granted check and touches only its own double",
                note="regex compilation and sleeping have no double: judged by outcome and the check event; sleep runs with 0 seconds"),
    "C06": dict(level="exploration", technique="runtime monitoring: error-injection probes over the tree's own signature table (every overload x position) and construction forms; limit sweep over wrapped computations with a model-free outcome oracle",
                text="held on the executions observed: (A) for every standard-library overload and argument position (pairs of positions in the thorough tier) an injected error is the result - the leftmost one - except at documented short-circuit / inspection positions; user functions, lambdas, callables, struct/union/tuple/array construction, collection insertion, f-strings likewise; no materialised collection contains an error. (B) a computation that trips a call / depth / search / recursion / size / permission / output limit, wrapped in 30 error-handling and higher-order forms, ends in that violation or in exactly the unlimited result for every placed limit value",
                note="positions exempted are exactly those the book documents; a foreign error is only accepted when the same call without injection yields it too"),
    "C12": dict(level="exploration", technique="runtime monitoring: panic hook + watchdog around feed_file, recording doubles / hook counters before a runtime exists, self-consistency oracle across repetitions, processes, compilation histories and limit configurations",
                text="held on the executions observed: token soups over the grammar's alphabet, mutations and splices of the 420 shipped scripts and the book's code fences, every numeric-literal / identifier / string-literal edge spelling, bracket and type nesting to 64 (100 in the thorough tier) and generated core programs were each compiled four times (twice in each of two processes, with different compilations before them and different limits): no panic, no non-termination, no touch of writer / clock / rng and no evaluation event before a runtime existed, identical acceptance and identical error text; accepted programs behave identically when executed twice",
                note="termination is judged by a 15 s watchdog plus a 45 s solo re-run; texts up to 6 kB"),
    "C01": dict(level="exploration", technique="runtime monitoring: panic hook + catch_unwind + process-death attribution around instantiate / run_function / forcing of every exported value; shape walker (value against the static type the compiler assigned) over every value produced; acceptance observed, never predicted",
                text="held on the executions observed: type-directed calls of every standard-library overload with tame and hostile literals, a list of ~150 near-miss programs aimed at the corner rules (callable arity, generic binding over several parameters, bottom type, defaults, forward references, calls through function values), generated core programs and mutants of the 420 shipped scripts were given to the compiler; every accepted one was instantiated and each zero-argument function run under seven limit configurations: each step ended in a value, an error value or a violation, never a panic, abort or hang under limits, and every value (elements forced) had the shape of its static type",
                note="model-free; memory/time exhaustion without the corresponding limit is the host's business (C10 covers limits); the first 24 elements of each container are forced"),
    "C03": dict(level="exploration", technique=DIFF + " run on unique names (environments are the specification of lexical scoping) while the source is printed with colliding spellings; output trace through a recording writer; fixed accept/reject probes for forward-declaration gating",
                text="held on the executions observed: generated programs with functions and lambdas nested up to 7 levels, captures at every ancestor distance up to 7, shadowing and same-scope redefinition of let / parameter / function names before and after closures are created, closures returned, stored in structs, sequences and optionals, passed through map/filter/reduce/sort/partial and called several times, self recursion, recursion through a captured lambda, mutual recursion through forward declarations, defaults with display evaluated at function creation, look-alike identifiers (item1/item01/Item1/item1x, keyword prefixes, 250-character names) agree binding by binding and output line by output line with the reference evaluator; 36 probes show that a function needing an unimplemented forward declaration can be neither called, taken as a value nor wrapped in a lambda before the implementation",
                note="trusts xrv/corelang.py; functions of one name are not re-declared in a visible scope (overloading is C05); recursive functions are called with 0..3 only; lambda defaults are pure"),
    "C10": dict(level="exploration", technique="runtime monitoring: return-event monitor (watchdog + address-space cap around every evaluation in a child process, kills confirmed by a solo re-run with 3x the budget) over hostile workloads; time clause: timestamped trace of user-function body starts through the recording writer",
                text="held on the executions observed (bounded restatement of the liveness claim): under search <= 500, call <= 2000, recursion <= 1000, size <= 4 MiB every evaluation of generated generator pipelines over infinite / 10^15-element sources (21 adaptor kinds, 30 consumers), sequence consumers on infinite and huge sequences, ~100 numeric templates with adversarial arguments and type-directed calls of every standard-library overload with huge ints, infinite sequences and degenerate callbacks returned (value, error or violation) within the budget; for 8 loop shapes under a time limit every user-function body (marked by a timestamped display) started no later than the deadline + 250 ms and the outcome was Timeout",
                note="a hang is the absence of an event: what is decided is 'returned within 8 s (quick) / 20 s (thorough), 3x that when re-run alone, and 6 GiB'; finite work above that bound is reported, unbounded work below it is invisible; the recursion limit is configured together with the search and call limits"),
}
REASON_PENDING = "check under construction in this round (not yet claimed)"

def main():
    hooks = subprocess.run(["git", "-C", "/repo", "log", "--format=%h %s"], capture_output=True, text=True).stdout.splitlines()
    hook_commits = [l.split()[0] for l in hooks if l.split(" ", 1)[1].startswith("verif hooks")]
    man = {"version": 1, "setup_cmd": "./check --setup",
           "hooks": {"guard": "cargo feature \"verif\" (off by default)",
                     "enable": "xray = { path = \"/repo\", features = [\"verif\"] } in /verif/worker/Cargo.toml",
                     "baseline_off_cmd": "cd /repo && cargo test --workspace --no-fail-fast --offline",
                     "source_commits": hook_commits[::-1], "add_only": True},
           "engines": [{"name": "xrv", "path": "/verif/xrv", "serves_properties": sorted(CHECKS),
                        "kind_free_text": "runtime monitoring: Rust worker hosting the online monitors (panic hook, recording doubles, shape walker, byte/call tallies through cfg-gated hooks) + Python drivers (workloads, reference models, offline checkers over observation logs)"}],
           "checks": [], "not_applicable": [], "notes": "see DESIGN.md; known findings in known_findings.jsonl"}
    for p in props:
        c = CHECKS.get(p["id"])
        if c:
            man["checks"].append({
                "property_id": p["id"], "quick_cmd": f"./check {p['id']} --tier quick",
                "thorough_cmd": f"./check {p['id']} --tier thorough",
                "evidence_file": f"/verif/evidence/{p['id']}.json",
                "replay_cmd_template": f"./check {p['id']} --replay {{path}}", "engine": "xrv",
                "level_claimed": {"category": c["level"], "text": c["text"], "design_ref": "DESIGN.md §5 " + p["id"]},
                "level_note": c["note"], "technique": c["technique"]})
        else:
            man["not_applicable"].append({"property_id": p["id"], "reason": REASON_PENDING})
    json.dump(man, open(os.path.join(ROOT, "MANIFEST.json"), "w"), indent=1)
    print("claimed:", sorted(CHECKS))

if __name__ == "__main__":
    main()
