#!/bin/sh
# remove a seeded-mutation worktree together with its build output
id=$1
git -C /repo worktree remove --force /tmp/seed/$id/repo 2>/dev/null
rm -rf /tmp/seed/$id/repo
git -C /repo worktree prune
